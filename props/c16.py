"""C16 — any statement yields a result or an error: never a panic, never a hang; an error changes nothing."""
from lib.runner import Spec, Stream, Case
from lib import sqlgen as G
from props.c05 import canon, gen_pexpr, oracle_pexpr
from props.c03 import select_all

KEYWORDS = ["SELECT", "FROM", "WHERE", "INSERT", "INTO", "VALUES", "UPDATE", "SET", "DELETE", "CREATE", "TABLE", "DROP", "INDEX", "UNIQUE",
            "ALTER", "ADD", "COLUMN", "PRIMARY", "KEY", "NOT", "NULL", "AND", "OR", "IN", "BETWEEN", "LIKE", "IS", "JOIN", "LEFT", "RIGHT", "FULL",
            "ON", "GROUP", "BY", "ORDER", "HAVING", "LIMIT", "OFFSET", "DISTINCT", "AS", "INT", "TEXT", "BIGINT", "BOOLEAN", "DEFAULT", "COUNT",
            "SUM", "MIN", "MAX", "AVG", "BEGIN", "COMMIT", "ROLLBACK", "VACUUM", "ANALYZE", "EXPLAIN", "TRUE", "FALSE", "CASE", "WHEN", "THEN",
            "ELSE", "END", "EXISTS", "UNION", "ALL", "ASC", "DESC", "WITH", "TRANSACTION", "CONSTRAINT", "FOREIGN", "REFERENCES", "CASCADE"]
SYMS = ["(", ")", ",", ";", "*", "+", "-", "/", "%", "=", "<", ">", "<=", ">=", "<>", "!=", "||", ".", "'", "''", "\"", "--", "/*", "*/", "?", ":", "@", "$1", "[", "]"]
VALID = ["SELECT a, b FROM t1", "SELECT a FROM t1 WHERE a > 1 AND b = 'x'", "INSERT INTO t1 VALUES (5, 'q', 7)", "UPDATE t1 SET c = c + 1 WHERE a = 1",
         "DELETE FROM t1 WHERE a = 2", "SELECT t1.a, t2.y FROM t1 JOIN t2 ON t1.a = t2.x", "SELECT COUNT(*), SUM(c) FROM t1 GROUP BY b",
         "SELECT DISTINCT b FROM t1 ORDER BY b LIMIT 2 OFFSET 1", "CREATE TABLE t9 (k INT NOT NULL, v TEXT, PRIMARY KEY (k))", "DROP TABLE t2",
         "SELECT a FROM t1 WHERE a IN (1, 2, 3) OR b LIKE 'x%' OR c BETWEEN 1 AND 5 OR b IS NOT NULL", "CREATE UNIQUE INDEX i9 ON t1(c)"]
SEMANTIC = ["SELECT a / 0 FROM t1", "SELECT a % 0 FROM t1", "SELECT c / (a - a) FROM t1", "UPDATE t1 SET c = c / 0", "DELETE FROM t1 WHERE a / 0 = 1",
            "SELECT -(-2147483648) FROM t1", "SELECT 2147483647 + 1 FROM t1", "SELECT 9223372036854775807 + 1 FROM t1", "SELECT a * 9223372036854775807 * 4 FROM t1",
            "INSERT INTO t1 VALUES (2147483648, 'y', 1)", "INSERT INTO t1 VALUES (99999999999999999999999999, 'y', 1)", "INSERT INTO t1 VALUES ('x', 'y', 1)",
            "INSERT INTO t1 VALUES (1)", "INSERT INTO t1 VALUES (1, 'y', 1, 2)", "INSERT INTO nosuch VALUES (1)", "SELECT nosuch FROM t1", "SELECT a FROM nosuch",
            "SELECT a FROM t1 WHERE b > 5", "SELECT a + b FROM t1", "SELECT a FROM t1 WHERE a", "SELECT SUM(b) FROM t1", "UPDATE t1 SET nosuch = 1", "UPDATE t1 SET a = 'x'",
            "SELECT a FROM t1 GROUP BY b", "SELECT t1.a FROM t1 JOIN t2 ON t1.b = t2.x", "SELECT a FROM t1 ORDER BY 17", "SELECT a FROM t1 LIMIT -1",
            "SELECT COUNT(*) FROM t1 WHERE COUNT(*) > 1", "CREATE TABLE t1 (a INT)", "CREATE TABLE t8 (a INT, a INT)", "CREATE TABLE t8 ()", "DROP TABLE nosuch",
            "CREATE UNIQUE INDEX i8 ON t1(nosuch)", "CREATE UNIQUE INDEX i8 ON nosuch(a)", "SELECT NULL / NULL FROM t1", "SELECT a FROM t1 WHERE NULL",
            "SELECT a FROM t1 WHERE b LIKE NULL", "SELECT a FROM t1 WHERE a IN ()", "SELECT a FROM t1 WHERE a BETWEEN 'x' AND 2", "SELECT MIN() FROM t1",
            "SELECT a FROM t1 t1a JOIN t1 t1b ON t1a.a = t1b.a", "INSERT INTO t1 (a, a) VALUES (1, 2)", "INSERT INTO t1 (nosuch) VALUES (1)", "SELECT * FROM t1, t2",
            "SELECT a FROM t1 WHERE (SELECT 1) = 1", "SELECT a FROM t1 WHERE EXISTS (SELECT x FROM t2)", "SELECT 1", "SELECT", "VACUUM", "ANALYZE", "BEGIN", "COMMIT", "ROLLBACK",
            "EXPLAIN SELECT a FROM t1", "SELECT 'unterminated FROM t1", "SELECT a FROM t1 WHERE b = 'it''s'", "SELECT \"a\" FROM t1", "SELECT a FROM t1 -- comment",
            "SELECT a /* c */ FROM t1", "SELECT a FROM t1;", "SELECT a FROM t1; SELECT b FROM t1", "SELECT 1e400 FROM t1", "SELECT 0.1 + 0.2 FROM t1", "SELECT a FROM t1 WHERE b = '" + "z" * 70000 + "'",
            # boundary values of clauses that skip or cut rows
            "SELECT a FROM t1 LIMIT 3 OFFSET 50", "SELECT a FROM t1 LIMIT 0", "SELECT a FROM t1 LIMIT 1 OFFSET 3", "SELECT a FROM t1 ORDER BY a LIMIT 2 OFFSET 4",
            "SELECT a FROM t1 LIMIT 2147483647 OFFSET 2147483647", "SELECT x FROM t2 WHERE x > 100 LIMIT 1 OFFSET 1",
            "SELECT DISTINCT a FROM t1 LIMIT 5 OFFSET 5", "DELETE FROM t2 WHERE x > 100", "UPDATE t2 SET y = 1 WHERE x > 100"]


def garbage(rng):
    k = rng.random()
    if k < 0.25:
        n = rng.choice([1, 3, 10, 40, 200])
        return "".join(chr(rng.choice([rng.randrange(32, 127), rng.randrange(32, 127), rng.randrange(160, 0x2fff)])) for _ in range(n))
    if k < 0.55:
        return " ".join(rng.choice(KEYWORDS + SYMS + ["t1", "t2", "a", "b", "c", "x", "1", "0", "'s'", "NULL"]) for _ in range(rng.choice([1, 2, 4, 8, 16, 40])))
    if k < 0.75:
        s = rng.choice(VALID)
        return s[:rng.randrange(0, len(s))]
    if k < 0.9:
        s = list(rng.choice(VALID))
        for _ in range(rng.choice([1, 2, 4])):
            i = rng.randrange(len(s))
            r = rng.random()
            if r < 0.4:
                s[i] = rng.choice(SYMS + ["", " "])
            elif r < 0.7:
                s.insert(i, rng.choice(SYMS + KEYWORDS) + " ")
            else:
                del s[i]
        return "".join(s)
    d = rng.choice([5, 50, 300, 2000])
    kind = rng.random()
    if kind < 0.4:
        return "SELECT " + "(" * d + "a" + ")" * d + " FROM t1"
    if kind < 0.7:
        return "SELECT a FROM t1 WHERE " + "NOT " * d + "TRUE"
    return "SELECT " + "a + " * d + "1 FROM t1"


def clean(sql):
    """the case line uses ' | ' and ' ;; ' as separators and one line per case"""
    import re
    sql = sql.replace("\n", " ").replace("\r", " ")
    sql = re.sub(r"\|{3,}", "||", sql)
    sql = re.sub(r"(?<!\|)\|(?!\|)", "!", sql)          # a lone pipe would read as the case separator
    while " ;; " in sql:
        sql = sql.replace(" ;; ", " ; ")
    return sql.strip() or "?"


KNOWN = {"SELECT 2147483647 + 1 FROM t1": "integer-overflow", "SELECT 9223372036854775807 + 1 FROM t1": "integer-overflow",
         "SELECT a * 9223372036854775807 * 4 FROM t1": "integer-overflow"}


def gen_case(rng, tier):
    h = G.History()
    classes = G.ClassSet(h)
    t1 = G.Table(1, "t1", [("a", "INT", False, None), ("b", "TEXT", False, None), ("c", "BIGINT", False, None)])
    t2 = G.Table(2, "t2", [("x", "INT", False, None), ("y", "INT", False, None)])
    for t in (t1, t2):
        h.x(t.create_sql(), t.create_coq())
    rows = [[G.lit_int(1), G.lit_text(b"x"), G.lit_int(10)], [G.lit_int(2), G.lit_text(b"y"), G.LIT_NULL], [G.lit_int(3), G.LIT_NULL, G.lit_int(0)]]
    h.x(G.insert_sql(t1, rows), G.insert_coq(t1, rows), sorted_=True)
    r2 = [[G.lit_int(1), G.lit_int(5)], [G.lit_int(4), G.lit_int(6)]]
    h.x(G.insert_sql(t2, r2), G.insert_coq(t2, r2), sorted_=True)
    q1, q2 = select_all(t1), select_all(t2)
    base = [len(h.rust), len(h.rust) + 1]
    h.x(q1.sql(), q1.coq(), sorted_=True); h.x(q2.sql(), q2.coq(), sorted_=True)
    probes = []          # (index of the statement, indices of the reads after it)
    in_session = rng.random() < 0.4
    if in_session:
        h.begin(1)
    for _ in range(rng.choice([4, 8, 14])):
        sql = clean(rng.choice(SEMANTIC) if rng.random() < 0.45 else garbage(rng))
        if sql in KNOWN:
            if rng.random() < 0.6:
                continue                      # keep most cases outside the recorded classes
            classes.add(KNOWN[sql])
        i = len(h.rust)
        if in_session:
            h.q(1, sql, "SDrop 999", sorted_=True)
        else:
            h.x(sql, "SDrop 999", sorted_=True)
        j = len(h.rust)
        if in_session:
            h.q(1, q1.sql(), q1.coq(), sorted_=True); h.q(1, q2.sql(), q2.coq(), sorted_=True)
        else:
            h.x(q1.sql(), q1.coq(), sorted_=True); h.x(q2.sql(), q2.coq(), sorted_=True)
        probes.append((i, [j, j + 1]))
    if in_session:
        h.commit(1)
    # the database is still usable
    i = len(h.rust)
    rows = [[G.lit_int(100), G.lit_text(b"end"), G.lit_int(1)]]
    h.x(G.insert_sql(t1, rows), G.insert_coq(t1, rows), sorted_=True)
    rust, coq = h.render()
    return Case(rust, coq, "fuzz", dict(classes.meta(), base=base, probes=probes, final=i))


def gen_cases(rng, tier):
    return [gen_case(rng, tier) for _ in range(200 if tier == "quick" else 4000)]


def oracle(case, il):
    """no statement panics, hangs or kills the worker; a statement that reports an error leaves both tables as they were;
    afterwards the database still accepts an INSERT"""
    segs = il.split(" | ")
    if len(segs) <= case.meta["final"]:
        return ("the case did not finish: %s" % il[-160:], len(segs) - 1)
    prev = [segs[i] for i in case.meta["base"]]
    for i, reads in case.meta["probes"]:
        s = segs[i]
        if s in ("err:panic", "hang") or s.startswith("abort"):
            return ("statement %d did not return a result or an error: %s" % (i, s), i)
        now = [segs[j] for j in reads]
        if any(x in ("err:panic", "hang") for x in now):
            return ("after statement %d (%s) reading a table panics or hangs: %s" % (i, s, now), reads[0])
        if s.startswith("err") and now != prev:
            return ("statement %d reported an error but changed the data: %s -> %s" % (i, prev, now), reads[0])
        prev = now
    if not segs[case.meta["final"]].startswith("count:1") and not any(a.split(" ", 1)[-1].lstrip("0123456789 ").upper().startswith(("DROP TABLE T1", "ALTER TABLE T1"))
                                                                   for a in case.rust.split(" | ")):
        return ("the database does not accept an INSERT after the statements: %s" % segs[case.meta["final"]], case.meta["final"])
    return None


class C16(Spec):
    id = "C16"
    design_ref = "7 (C16)"
    gen_tables = ["GenPratt.v"]
    model_targets = ["theories/Model/PrattRun.vo", "theories/Proofs/PrattTermination.vo"]
    prop_vo = "theories/Props/C16.vo"
    prop_module = "Props.C16"
    theorems = ["C16_parser_terminates", "C16_reference_total"]
    rule = ("statements: two small tables, then 4-14 statements drawn from: random printable / non-ASCII strings, soups of SQL "
            "keywords and symbols, truncated valid statements, valid statements with characters replaced / inserted / deleted, "
            "parentheses / NOT / operator chains nested 5-2000 deep, and a list of 60 well-formed statements that must fail or be "
            "harmless (division and modulo by zero, integer overflow, oversized literals, wrong types, wrong arity, unknown tables / "
            "columns, aggregates and sub-queries in odd places, duplicate names, empty lists, unterminated strings and comments, a "
            "70000-byte literal), in autocommit or inside one session; both tables are read after every statement and an INSERT is "
            "made at the end.  Oracle: no statement answers with a panic or a hang (60 s watchdog) and none kills the process; a "
            "statement that reports an error leaves both tables as they were; the final INSERT succeeds.  There is no model to "
            "compare with in this stream.  pexpr: the parser facade against the Pratt model on printed trees and mutated token "
            "sequences (as in C05)")
    trusted_extra = ["the termination theorem is about the Pratt model (core expression grammar, regenerated binding powers); the "
                     "statement-level parser, lexer, binder and executor are covered by the fuzz stream only",
                     "hangs are detected by a per-case watchdog of AXV_CASE_TIMEOUT seconds (default 30) in the harness",
                     "the harness builds with overflow checks, as the project's own test profile does: arithmetic overflow panics there"]
    streams = [Stream("statements", "sql", [], None, gen_cases, oracle=oracle, canon=canon, rust_shards=8,
                      nontrivial=lambda c, il: "err" in il),
               Stream("pexpr", "pexpr", ["Base.Bytes", "Model.PrattOps", "Model.Pratt", "Model.PrattRun"], "run_pexpr_case", gen_pexpr,
                      oracle=oracle_pexpr, nontrivial=lambda c, il: len(c.rust) > 12)]

    def known_class(self, k, case):
        return k.get("class") in case.meta.get("classes", [])


SPEC = C16()
