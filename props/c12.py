"""C12 — configuration changes performance, never results (same workload under several configurations vs RefDB)."""
from lib.runner import Spec, Stream, Case
from lib import sqlgen as G
from props.c05 import canon
from props.c03 import select_all

PAGES = [4096, 8192, 16384, 65536]
CACHES = [24, 40, 100, 1000]
POOLS = [1, 2, 4]
MINKEYS = [3, 4, 8]
SIBS = [1, 2, 3]
BIG = b"abcdefghijklmnopqrstuvwxyz0123456789" * 200


def rand_cfg(rng):
    return "page=%d,cache=%d,pool=%d,minkeys=%d,siblings=%d" % (rng.choice(PAGES), rng.choice(CACHES), rng.choice(POOLS),
                                                                 rng.choice(MINKEYS), rng.choice(SIBS))


def gen_workload(rng, tier):
    cfgs = ["page=4096,cache=10000,pool=2,minkeys=3,siblings=1"] + [rand_cfg(rng) for _ in range(3)]
    h = G.History(cfg=";".join(cfgs))
    pk = rng.random() < 0.6
    t = G.Table(1, "t1", [("id", "INT", pk, None), ("k", "INT", False, None), ("v", "INT", False, None), ("s", "TEXT", False, None)],
                pk=[0] if pk else None)
    h.x(t.create_sql(), t.create_coq())
    nid = [1]
    cols = [(i, c[1]) for i, c in enumerate(t.cols)]

    def rows(n):
        out = []
        for _ in range(n):
            ln = rng.choice([0, 3, 10, 40, 200, 900, 2500, 5000]) if rng.random() < 0.8 else rng.choice([7000, 7200])
            out.append([G.lit_int(nid[0]), G.rand_lit(rng, "INT", 0.1), G.lit_int(rng.randint(0, 9)), G.lit_text(BIG[:ln])])
            nid[0] += 1
        return out

    q = select_all(t)
    for round_ in range(rng.choice([4, 6, 8])):
        r = rng.random()
        if r < 0.45:
            rs = rows(rng.choice([5, 10, 25]))
            h.x(G.insert_sql(t, rs), G.insert_coq(t, rs), sorted_=True)
        elif r < 0.6:
            where = ("bin", rng.choice(["<", ">="]), ("col", 0), G.lit_int(rng.randint(1, nid[0])))
            h.x(G.delete_sql(t, where), G.delete_coq(t, where), sorted_=True)
        elif r < 0.75:
            sets = [(2, ("bin", "+", ("col", 2), G.lit_int(1)))]
            where = ("bin", "=", ("col", 2), G.lit_int(rng.randint(0, 9)))
            h.x(G.update_sql(t, sets, where), G.update_coq(t, sets, where), sorted_=True)
        elif r < 0.85:
            h.simple("F", "AFlush")
        elif r < 0.92:
            h.simple("V", "AVacuum")
        else:
            k = 10 + round_
            h.begin(k)
            rs = rows(3)
            h.q(k, G.insert_sql(t, rs), G.insert_coq(t, rs), sorted_=True)
            h.rollback(k)
        if rng.random() < 0.5:
            w = ("bin", "=", ("col", 0), G.lit_int(rng.randint(1, nid[0])))
            sel = G.Select([("expr", ("col", 0)), ("expr", ("col", 2))], ("table", t), where=w)
            h.x(sel.sql(), sel.coq(), sorted_=True)
    h.x(q.sql(), q.coq(), sorted_=True)
    h.simple("O", "AReopen", "cache=10000")
    h.x(q.sql(), q.coq(), sorted_=True)
    rust, coq = h.render()
    return Case(rust, coq, "workload", {"classes": [], "cfgs": cfgs})


def oracle(case, il):
    """independent of the model: every configuration gives the same answers (an explicit out-of-memory error excepted)"""
    segs = il.split(" | ")
    for i, s in enumerate(segs):
        if s.startswith("cfgdiff{"):
            return ("configurations disagree at action %d: %s" % (i, s[:300]), i)
        if s == "err:panic" or s == "hang":
            return ("a configuration did not return a result or an error at action %d" % i, i)
    return None


def gen_cases(rng, tier):
    return [gen_workload(rng, tier) for _ in range(40 if tier == "quick" else 600)]


class C12(Spec):
    id = "C12"
    design_ref = "7 (C12)"
    model_targets = ["theories/Spec/RefDBRun.vo"]
    prop_vo = "theories/Props/C12.vo"
    prop_module = "Props.C12"
    theorems = ["C12_holds"]
    streams = [Stream("workloads", "sql", ["Base.Bytes", "Model.Values", "Spec.RefDB", "Spec.RefDBRun"], "run_sql_case", gen_cases,
                      oracle=oracle, canon=canon, rust_shards=16, shard=5, reference=True,
                      nontrivial=lambda c, il: True)]

    def known_class(self, k, case):
        return k.get("class") in case.meta.get("classes", [])


SPEC = C12()
