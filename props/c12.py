"""C12 — configuration changes performance, never results (same workload under several configurations vs RefDB)."""
from lib.runner import Spec, Stream, Case
from lib import sqlgen as G
from props.c05 import canon
from props.c03 import select_all

PAGES = [4096, 8192, 16384, 65536]
CACHES = [24, 40, 100, 1000, 65536, 65540, 131072]      # the page-zero header stores the cache size in 16 bits
POOLS = [1, 2, 4]
MINKEYS = [3, 4, 8]
SIBS = [1, 2, 3]
BIG = b"abcdefghijklmnopqrstuvwxyz0123456789" * 200


def rand_cfg(rng):
    return "page=%d,cache=%d,pool=%d,minkeys=%d,siblings=%d" % (rng.choice(PAGES), rng.choice(CACHES), rng.choice(POOLS),
                                                                 rng.choice(MINKEYS), rng.choice(SIBS))


def gen_workload(rng, tier, big=False):
    cfgs = ["page=4096,cache=10000,pool=2,minkeys=3,siblings=1"] + [rand_cfg(rng) for _ in range(3)]
    h = G.History(cfg=";".join(cfgs))
    pk = rng.random() < 0.6
    t = G.Table(1, "t1", [("id", "INT", pk, None), ("k", "INT", False, None), ("v", "INT", False, None), ("s", "TEXT", False, None)],
                pk=[0] if pk else None)
    h.x(t.create_sql(), t.create_coq())
    nid = [1]
    cols = [(i, c[1]) for i, c in enumerate(t.cols)]

    def rows(n):
        out = []
        for _ in range(n):
            if big:
                ln = rng.choice([0, 3, 10, 40, 200, 900, 2500, 5000]) if rng.random() < 0.8 else rng.choice([7000, 7200])
            else:
                ln = rng.choice([0, 3, 10, 40, 100, 150])          # rows below a twentieth of the smallest page
            out.append([G.lit_int(nid[0]), G.rand_lit(rng, "INT", 0.1), G.lit_int(rng.randint(0, 9)), G.lit_text(BIG[:ln])])
            nid[0] += 1
        return out

    q = select_all(t)
    for round_ in range(rng.choice([4, 6, 8])):
        r = rng.random()
        if r < 0.45 and nid[0] <= 180:
            # at most ~240 rows per table: every inserted row adds a version to the table's catalog row and a row holds
            # at most 255 versions (recorded finding C16-catalog-row-version-overflow)
            rs = rows(rng.choice([5, 10, 25, 60]))
            h.x(G.insert_sql(t, rs), G.insert_coq(t, rs), sorted_=True)
        elif r < 0.6:
            where = ("bin", rng.choice(["<", ">="]), ("col", 0), G.lit_int(rng.randint(1, nid[0])))
            h.x(G.delete_sql(t, where), G.delete_coq(t, where), sorted_=True)
        elif r < 0.75:
            sets = [(2, ("bin", "+", ("col", 2), G.lit_int(1)))]
            where = ("bin", "=", ("col", 2), G.lit_int(rng.randint(0, 9)))
            h.x(G.update_sql(t, sets, where), G.update_coq(t, sets, where), sorted_=True)
        elif r < 0.85:
            h.simple("F", "AFlush")
        elif r < 0.92:
            h.simple("V", "AVacuum")
        else:
            k = 10 + round_
            h.begin(k)
            rs = rows(3)
            h.q(k, G.insert_sql(t, rs), G.insert_coq(t, rs), sorted_=True)
            h.rollback(k)
        if rng.random() < 0.5:
            w = ("bin", "=", ("col", 0), G.lit_int(rng.randint(1, nid[0])))
            sel = G.Select([("expr", ("col", 0)), ("expr", ("col", 2))], ("table", t), where=w)
            h.x(sel.sql(), sel.coq(), sorted_=True)
    if rng.random() < 0.6:
        # pages freed by a dropped table are recycled for a new one; the new root may leave the cache before it is written
        t2 = G.Table(2, "t2", [("x", "INT", False, None), ("y", "TEXT", False, None)])
        h.x(t2.create_sql(), t2.create_coq())
        r2 = [[G.lit_int(i), G.lit_text(BIG[:rng.choice([10, 60, 150])])] for i in range(rng.choice([30, 120]))]
        h.x(G.insert_sql(t2, r2), G.insert_coq(t2, r2), sorted_=True)
        h.x("DROP TABLE t2", "SDrop 2")
        h.simple("V", "AVacuum")
        t3 = G.Table(3, "t3", [("x", "INT", False, None), ("y", "TEXT", False, None)])
        h.x(t3.create_sql(), t3.create_coq())
        if rng.random() < 0.5:
            h.simple("F", "AFlush")
        else:
            h.x(q.sql(), q.coq(), sorted_=True)
        r3 = [[G.lit_int(i), G.lit_text(BIG[:rng.choice([10, 60])])] for i in range(rng.choice([2, 40]))]
        h.x(G.insert_sql(t3, r3), G.insert_coq(t3, r3), sorted_=True)
        q3 = select_all(t3)
        h.x(q3.sql(), q3.coq(), sorted_=True)
    h.x(q.sql(), q.coq(), sorted_=True)
    h.simple("O", "AReopen", "cache=10000")
    h.x(q.sql(), q.coq(), sorted_=True)
    rust, coq = h.render()
    return Case(rust, coq, "workload", {"classes": ["large-cells"] if big else [], "cfgs": cfgs})


def oracle(case, il):
    """independent of the model: every configuration gives the same answers (an explicit out-of-memory error excepted)"""
    segs = il.split(" | ")
    for i, s in enumerate(segs):
        if s.startswith("cfgdiff{"):
            return ("configurations disagree at action %d: %s" % (i, s[:300]), i)
        if s == "err:panic" or s == "hang":
            return ("a configuration did not return a result or an error at action %d" % i, i)
    return None


def gen_pgr(rng, tier):
    """operation sequences on the pager with caches of 1-6 frames: allocate, write, read, pin, unpin, flush"""
    out = []
    for i in range(150 if tier == "quick" else 3000):
        cap = rng.choice([1, 2, 2, 3, 4, 6])
        rust, coq = [], []
        n_alloc, pins, vals = 0, [], {}
        expect = []
        for _ in range(rng.choice([8, 20, 40])):
            r = rng.random()
            if n_alloc == 0 or (r < 0.2 and not pins):
                # never while frames are referenced: an allocation refused for lack of frames leaks its page number,
                # and reading such a page is not something the engine does
                rust.append("a"); coq.append("PAlloc"); n_alloc += 1
                continue
            p = rng.randint(1, n_alloc)
            if r < 0.45:
                v = rng.randrange(1, 10 ** 6)
                rust.append("w:%d:%d" % (p, v)); coq.append("PWrite %d %d" % (p, v))
            elif r < 0.75:
                rust.append("r:%d" % p); coq.append("PRead %d" % p)
            elif r < 0.85 and len(pins) < cap + 1:
                rust.append("p:%d" % p); coq.append("PPin %d" % p); pins.append(p)
            elif r < 0.93 and pins:
                q = pins.pop(rng.randrange(len(pins)))
                rust.append("u:%d" % q); coq.append("PUnpin %d" % q)
            elif not pins:
                rust.append("F"); coq.append("PFlush")      # a checkpoint empties the cache: never while frames are referenced
        for q in pins:
            rust.append("u:%d" % q); coq.append("PUnpin %d" % q)
        for p in range(1, n_alloc + 1):
            rust.append("r:%d" % p); coq.append("PRead %d" % p)
        out.append(Case("pgr 4096,%d %s" % (cap, " ".join(rust)), "(%d%%nat, [%s])" % (cap, "; ".join(coq)), "pgr", {"classes": [], "cap": cap}))
    return out


def oracle_pgr(case, il):
    """independent of the model: a read returns the last value whose write was acknowledged (0 for a fresh page);
    the only failure is the explicit out-of-memory error"""
    ops = case.rust.split(" ")[2:]
    outs = il.split(" ")
    if len(ops) != len(outs):
        return "%d answers for %d operations" % (len(outs), len(ops))
    vals = {}
    for i, (op, o) in enumerate(zip(ops, outs)):
        if "err" in o and not o.endswith(":oom"):
            return ("operation %d %s failed with %s" % (i, op, o), i)
        f = op.split(":")
        if f[0] == "w" and o == "wok":
            vals[int(f[1])] = int(f[2])
        elif f[0] == "r" and o.startswith("r="):
            if int(o[2:]) != vals.get(int(f[1]), 0):
                return ("operation %d: read of page %s gave %s, last acknowledged write was %d" % (i, f[1], o[2:], vals.get(int(f[1]), 0)), i)
    return None


def gen_cases(rng, tier):
    n = 40 if tier == "quick" else 600
    return [gen_workload(rng, tier, big=(i % 8 == 7)) for i in range(n)]


class C12(Spec):
    id = "C12"
    design_ref = "7 (C12)"
    model_targets = ["theories/Spec/RefDBRun.vo", "theories/Model/CacheRun.vo", "theories/Proofs/CacheProofs.vo"]
    prop_vo = "theories/Props/C12.vo"
    prop_module = "Props.C12"
    theorems = ["C12_cache", "C12_capacity_independent", "C12_reference"]
    rule = ("workloads: one table (with or without PRIMARY KEY), 4-8 rounds of multi-row INSERT (5-60 rows), DELETE, UPDATE, point "
            "SELECTs, flush, VACUUM, rolled-back sessions, final full read, reopen, full read - run under four configurations at once "
            "(page 4-64 KiB, cache 24-1000 frames and sizes at and above 2^16, pool 1-4, minimum keys 3-8, siblings 1-3; the first is a reference configuration); "
            "the harness reports the first answer on which two configurations differ; a configuration that answers out-of-memory is "
            "left out from there if its cache has fewer than a thousand frames and is reported otherwise (the workloads touch fewer than a "
            "hundred pages).  Oracle independent of the model: no such difference, no panic.  The common answers are also "
            "compared with RefDB.  pager: allocate / write / read / pin / unpin / flush sequences on the real pager with caches of 1-6 "
            "frames against the cache model, with a python oracle (a read returns the last acknowledged write).  Rows above a "
            "twentieth of the smallest page are the recorded class large-cells")
    trusted_extra = ["Model/Cache.v models read_page / cache_frame / allocate_page / flush and PageCache insert / evict / clear; the "
                     "victim choice of the clock sweep is not modelled (it is unobservable) - the theorem holds for the model's "
                     "choice, the pager stream checks the code's choices give the same answers",
                     "a checkpoint while frames are referenced detaches them from the cache; the generator never does that",
                     "worker-pool size, page size, minimum keys and siblings are covered by the SQL workloads only"]
    streams = [Stream("workloads", "sql", ["Base.Bytes", "Model.Values", "Spec.RefDB", "Spec.RefDBRun"], "run_sql_case", gen_cases,
                      oracle=oracle, canon=canon, rust_shards=16, shard=5, reference=True,
                      nontrivial=lambda c, il: True),
               Stream("pager", "pgr", ["Base.Bytes", "Model.Cache", "Model.CacheRun"], "run_pgr_case", gen_pgr,
                      oracle=oracle_pgr, nontrivial=lambda c, il: ":oom" in il or "F" in c.rust)]

    def known_class(self, k, case):
        return k.get("class") in case.meta.get("classes", [])


SPEC = C12()
