//! Mode `wal`: WriteAheadLog driven by operation lists through the verif facade (C17).
//! case:  wal <read_ahead> <op>*      ops:  p:<lsn>:<tid>:<kind>:<undo_len>:<redo_len>   f  r  c  T  t  R
//! output: space separated events: perr:<lsn>  read[<lsn>:<tid>:<kind>:<ulen>:<rlen>:<ok>,...]  rerr  operr:<op>
use axmosdb::verif::wal::{Log, Rec};
use std::collections::HashMap;
use std::path::PathBuf;
use std::sync::atomic::{AtomicUsize, Ordering};

static COUNTER: AtomicUsize = AtomicUsize::new(0);

pub fn scratch_dir(tag: &str) -> PathBuf {
    let base = std::env::var("AXV_SCRATCH").unwrap_or_else(|_| "/tmp/axv_scratch".into());
    let n = COUNTER.fetch_add(1, Ordering::SeqCst);
    let d = PathBuf::from(base).join(format!("{}_{}_{}", tag, std::process::id(), n));
    let _ = std::fs::remove_dir_all(&d);
    std::fs::create_dir_all(&d).unwrap();
    d
}

fn payload(lsn: u64, salt: u64, len: usize) -> Vec<u8> {
    (0..len).map(|i| ((lsn * 31 + salt + (i as u64) * 7 + 1) % 256) as u8).collect()
}

pub fn make_rec(lsn: u64, tid: u64, kind: u8, ulen: usize, rlen: usize) -> Rec {
    Rec {
        lsn,
        tid,
        prev: if lsn % 3 == 0 { None } else { Some(lsn.wrapping_sub(1)) },
        oid: if kind >= 6 { Some(tid + 100) } else { None },
        row: if kind >= 6 { Some(lsn * 2 + 1) } else { None },
        kind,
        undo: payload(lsn, 3, ulen),
        redo: payload(lsn, 11, rlen),
    }
}

pub fn run(t: &[&str]) -> String {
    let dir = scratch_dir("wal");
    let path = dir.join("axmos.log");
    let ra: usize = t[1].parse().unwrap();
    let mut out: Vec<String> = Vec::new();
    let mut pushed: HashMap<u64, Rec> = HashMap::new();
    let mut log = Some(Log::create(&path).expect("create"));
    for op in &t[2..] {
        let f: Vec<&str> = op.split(':').collect();
        match f[0] {
            "p" => {
                let r = make_rec(f[1].parse().unwrap(), f[2].parse().unwrap(), f[3].parse().unwrap(), f[4].parse().unwrap(), f[5].parse().unwrap());
                match log.as_mut().unwrap().push(&r) {
                    Ok(()) => {
                        pushed.insert(r.lsn, r);
                    }
                    Err(_) => out.push(format!("perr:{}", r.lsn)),
                }
            }
            "f" => {
                if log.as_mut().unwrap().flush().is_err() {
                    out.push("operr".into());
                }
            }
            "t" => {
                if log.as_mut().unwrap().truncate().is_err() {
                    out.push("operr".into());
                }
            }
            "T" => {
                let l = log.as_mut().unwrap();
                if l.truncate().is_err() || l.flush().is_err() {
                    out.push("operr".into());
                }
            }
            "r" => {
                drop(log.take());
                match Log::open(&path) {
                    Ok(l) => log = Some(l),
                    Err(_) => {
                        out.push("operr".into());
                        break;
                    }
                }
            }
            "c" => {
                log.take().unwrap().crash();
                match Log::open(&path) {
                    Ok(l) => log = Some(l),
                    Err(_) => {
                        out.push("operr".into());
                        break;
                    }
                }
            }
            "L" => out.push(match log.as_mut().unwrap().last_lsn() {
                Some(l) => format!("last:{}", l),
                None => "last:none".into(),
            }),
            "R" => match log.as_mut().unwrap().read_all(ra) {
                Ok(recs) => {
                    let items: Vec<String> = recs
                        .iter()
                        .map(|r| {
                            let ok = pushed.get(&r.lsn).map(|p| p == r).unwrap_or(false);
                            format!("{}:{}:{}:{}:{}:{}", r.lsn, r.tid, r.kind, r.undo.len(), r.redo.len(), ok as u8)
                        })
                        .collect();
                    out.push(format!("read[{}]", items.join(",")));
                }
                Err(_) => out.push("rerr".into()),
            },
            x => panic!("bad wal op {x}"),
        }
    }
    if let Some(l) = log.take() {
        l.crash();
    }
    let _ = std::fs::remove_dir_all(&dir);
    if out.is_empty() {
        "-".into()
    } else {
        out.join(" ")
    }
}
