//! Mode `mt`: several client threads use one database at once.
//!
//! case:  mt <cfg> <tables> <yield-seed> <timeout-ms> | <setup action> | ... || <thread script> || <thread script> ...
//!   setup actions run on the main thread (X <sql>); a thread script is `<action> | <action> ...` with
//!   X <sql>  X! <sql>  (autocommit)   B   Q <sql>   Q! <sql>   C   R   (the thread's own session)
//!   P <micros>  (pause)
//! output: <setup answers> || <answers of thread 1> || ... || final <dump> || locks <per pool thread sequences>
//!   an answer of `hang` means the statement did not return within the timeout (the process is then abandoned);
//!   lock sequences: `T: a0w a5r r5 r0 ...` = acquire object 0 exclusive, acquire 5 shared, release 5, release 0
use crate::sql::{classify_err, parse_cfg, show_result};
use axmosdb::tcp::session::Session;
use axmosdb::verif::locktap;
use axmosdb::Database;
use std::sync::mpsc;
use std::sync::Arc;
use std::time::Duration;

fn run_script(db: &Database, script: &str) -> Vec<String> {
    let mut out = Vec::new();
    let mut session: Option<Session> = None;
    for act in script.split(" | ") {
        let act = act.trim();
        if act.is_empty() {
            continue;
        }
        let (op, rest) = act.split_once(' ').unwrap_or((act, ""));
        let r: String = match op {
            "X" | "X!" => match db.execute(rest) {
                Ok(r) => show_result(&r, op == "X!"),
                Err(e) => {
                    if std::env::var("AXV_VERBOSE").is_ok() { eprintln!("ERR {}: {}", rest, e); }
                    classify_err(&e.to_string())
                }
            },
            "B" => match db.session() {
                Ok(s) => { session = Some(s); "ok".into() }
                Err(e) => classify_err(&e.to_string()),
            },
            "Q" | "Q!" => match session.as_mut() {
                Some(s) => match s.execute(rest) {
                    Ok(r) => show_result(&r, op == "Q!"),
                    Err(e) => {
                        if std::env::var("AXV_VERBOSE").is_ok() { eprintln!("ERR {}: {}", rest, e); }
                        classify_err(&e.to_string())
                    }
                },
                None => "nosession".into(),
            },
            "C" => match session.take() {
                Some(mut s) => match s.commit_transaction() {
                    Ok(()) => "ok".into(),
                    Err(e) => {
                        if std::env::var("AXV_VERBOSE").is_ok() { eprintln!("ERR commit: {}", e); }
                        classify_err(&e.to_string())
                    }
                },
                None => "nosession".into(),
            },
            "R" => match session.take() {
                Some(mut s) => match s.abort_transaction() { Ok(()) => "ok".into(), Err(e) => classify_err(&e.to_string()) },
                None => "nosession".into(),
            },
            "P" => { std::thread::sleep(Duration::from_micros(rest.parse().unwrap_or(0))); continue; }
            x => panic!("bad mt action {x}"),
        };
        out.push(r);
    }
    out
}

pub fn run_line(line: &str) -> String {
    let mut sections = line.split(" || ");
    let first = sections.next().unwrap();
    let mut parts = first.split(" | ");
    let head: Vec<&str> = parts.next().unwrap().split_whitespace().collect();
    let cfg = parse_cfg(head.get(1).copied().unwrap_or(""));
    let tables: Vec<String> = head.get(2).copied().unwrap_or("").split(',').filter(|s| !s.is_empty()).map(|s| s.to_string()).collect();
    let yield_seed: u64 = head.get(3).and_then(|s| s.parse().ok()).unwrap_or(0);
    let timeout_ms: u64 = head.get(4).and_then(|s| s.parse().ok()).unwrap_or(10000);
    let scripts: Vec<String> = sections.map(|s| s.to_string()).collect();

    let dir = crate::wal::scratch_dir("mt");
    let path = dir.join("db.axm");
    let db = Arc::new(Database::create(&path, cfg).expect("create db"));
    let setup: Vec<String> = parts
        .map(|a| {
            let a = a.trim();
            let (_, sql) = a.split_once(' ').unwrap_or((a, ""));
            match db.execute(sql) { Ok(r) => show_result(&r, false), Err(e) => classify_err(&e.to_string()) }
        })
        .collect();

    locktap::start();
    axmosdb::verif::set_yield_seed(yield_seed);
    let (tx, rx) = mpsc::channel::<(usize, Vec<String>)>();
    let n = scripts.len();
    for (i, sc) in scripts.iter().enumerate() {
        let db = Arc::clone(&db);
        let sc = sc.clone();
        let tx = tx.clone();
        std::thread::spawn(move || {
            let r = std::panic::catch_unwind(std::panic::AssertUnwindSafe(|| run_script(&db, &sc)));
            let _ = tx.send((i, r.unwrap_or_else(|_| vec!["clientpanic".into()])));
        });
    }
    drop(tx);
    let mut answers: Vec<Option<Vec<String>>> = vec![None; n];
    let deadline = std::time::Instant::now() + Duration::from_millis(timeout_ms);
    let mut hung = false;
    for _ in 0..n {
        let left = deadline.saturating_duration_since(std::time::Instant::now());
        match rx.recv_timeout(left) {
            Ok((i, r)) => answers[i] = Some(r),
            Err(_) => { hung = true; break; }
        }
    }
    axmosdb::verif::set_yield_seed(0);
    let events = locktap::stop();
    let thread_out: Vec<String> = answers.iter().map(|a| match a { Some(v) => v.join(" | "), None => "hang".into() }).collect();

    // per tapped thread: its own acquire/release sequence
    let mut seqs: std::collections::BTreeMap<u64, Vec<String>> = Default::default();
    for e in &events {
        seqs.entry(e.thread).or_default().push(format!("{}{}{}", if e.acquire { "a" } else { "r" }, e.object, if e.acquire { if e.exclusive { "w" } else { "r" } } else { "" }));
    }
    let locks = seqs.iter().map(|(t, v)| format!("{}: {}", t, v.join(" "))).collect::<Vec<_>>().join(" ; ");

    let dump = if hung {
        // the database may be wedged: do not touch it again, and do not run destructors that take its locks
        std::mem::forget(db);
        "unavailable".to_string()
    } else {
        let d = tables
            .iter()
            .map(|t| {
                let s = match db.execute(&format!("SELECT * FROM {}", t)) { Ok(r) => show_result(&r, true), Err(e) => classify_err(&e.to_string()) };
                format!("{}={}", t, s)
            })
            .collect::<Vec<_>>()
            .join(",");
        drop(db);
        let _ = std::fs::remove_dir_all(&dir);
        d
    };
    format!("{} || {} || final {} || locks {}", setup.join(" | "), thread_out.join(" || "), dump, locks)
}
