//! Mode `fl`: the page allocator and its free list through the pager facade (C11: io/pager.rs allocate_page / dealloc_page).
//! case: fl <page size>,<cache size> <op>*
//! ops: a (allocate overflow page)  b (allocate B+tree page)  l:<a>:<b> (write next link of a)  B:<id> (free a B+tree page)
//!      O:<id> (free one overflow page)  C:<id>+<id>+... (free a chain, link by link)
//! answer per op: <result>[<total>;<head>;<tail>;<free list as linked>]
use axmosdb::verif::pager::P;

fn opt(x: Option<u64>) -> String { x.map(|v| v.to_string()).unwrap_or_else(|| "-".into()) }

fn state(p: &mut P) -> String {
    match p.free_list() {
        Ok((total, head, tail, list)) => format!("[{};{};{};{}]", total, opt(head), opt(tail),
            list.iter().map(|x| x.to_string()).collect::<Vec<_>>().join(">")),
        Err(e) => format!("[!{}]", e),
    }
}

pub fn run(t: &[&str]) -> String {
    let cfg: Vec<usize> = t[1].split(',').map(|x| x.parse().unwrap()).collect();
    let dir = crate::wal::scratch_dir("fl");
    let mut p = match P::create(&dir.join("p.db"), cfg[0], cfg[1]) { Ok(p) => p, Err(e) => return format!("createerr:{}", e) };
    let mut out: Vec<String> = Vec::new();
    for op in &t[2..] {
        let f: Vec<&str> = op.split(':').collect();
        let r = match f[0] {
            "a" => p.alloc().map(|id| format!("id{}", id)),
            "b" => p.alloc_btree().map(|id| format!("id{}", id)),
            "l" => p.set_next(f[1].parse().unwrap(), f[2].parse().unwrap()).map(|_| "ok".to_string()),
            "B" => p.dealloc(f[1].parse().unwrap(), true).map(|_| "ok".to_string()),
            "O" => p.dealloc(f[1].parse().unwrap(), false).map(|_| "ok".to_string()),
            "C" => {
                let mut r = Ok("ok".to_string());
                for id in f[1].split('+') {
                    if let Err(e) = p.dealloc(id.parse().unwrap(), false) { r = Err(e); break; }
                }
                r
            }
            x => panic!("bad fl op {x}"),
        };
        let r = r.unwrap_or_else(|e| format!("err:{}", e.replace(' ', "_")));
        out.push(format!("{}{}", r, state(&mut p)));
    }
    out.join(" ")
}
