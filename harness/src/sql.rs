//! Mode `sql`: histories of statements over autocommit calls and sessions against a real Database
//! (public API only).  case:  sql <cfg> | <action> | <action> ...
//! cfg:   page=4096,cache=10000,pool=2,minkeys=3,siblings=2
//! actions:  X <sql>   X! <sql> (unordered result: rows are sorted)   B <k>   Q <k> <sql>   Q! <k> <sql>
//!           C <k>   R <k>   D <k>   T <sql> ;; <sql> ...   V   F   A   O <cfg>   K <cfg>   E <sql>
use axmosdb::runtime::QueryResult;
use axmosdb::tcp::session::Session;
use axmosdb::types::DataType;
use axmosdb::{DBConfig, Database};
use std::collections::HashMap;

pub fn parse_cfg(s: &str) -> DBConfig {
    let mut c = DBConfig::default();
    c.pool_size = 2;
    for kv in s.split(',') {
        if let Some((k, v)) = kv.split_once('=') {
            let v: usize = v.parse().unwrap();
            match k {
                "page" => c.page_size = v,
                "cache" => c.cache_size = v,
                "pool" => c.pool_size = v,
                "minkeys" => c.min_keys_per_page = v,
                "siblings" => c.num_siblings_per_side = v,
                _ => panic!("bad cfg key {k}"),
            }
        }
    }
    c
}

pub fn show_sql_value(v: &DataType) -> String {
    match v {
        DataType::Null => "n".into(),
        DataType::Bool(b) => format!("b{}", if b.value() { 1 } else { 0 }),
        DataType::Int(x) => format!("{}", x.0),
        DataType::BigInt(x) => format!("{}", x.0),
        DataType::UInt(x) => format!("{}", x.0),
        DataType::BigUInt(x) => format!("{}", x.0),
        DataType::Float(x) => format!("d{}", (x.0 as f64).to_bits()),
        DataType::Double(x) => format!("d{}", x.0.to_bits()),
        DataType::Blob(b) => match b.data() {
            Ok(d) => format!("t{}", crate::util::hex(d)),
            Err(_) => "t!".into(),
        },
    }
}

pub fn classify_err(msg: &str) -> String {
    let m = msg.to_lowercase();
    let class = if m.contains("expected overflow frame") {
        // an overflow-chain pointer that leads to a page of another kind: the recorded B+tree large-cell defect
        // (catalog rows are large cells); kept apart so that it cannot be mistaken for an ordinary statement error
        "overflowframe"
    } else if m.contains("out of memory") {
        "oom"
    } else if m.contains("parse error") {
        "parse"
    } else if m.contains("binder error") {
        "bind"
    } else if m.contains("constraint") || m.contains("unique") || m.contains("not null") {
        "constraint"
    } else if m.contains("panick") || m.contains("task") && m.contains("channel") {
        "panic"
    } else {
        "other"
    };
    format!("err:{}", class)
}

pub fn show_result(r: &QueryResult, sorted: bool) -> String {
    match r {
        QueryResult::Rows(rows) => {
            let mut rs: Vec<String> = rows
                .iterrows()
                .map(|row| row.iter().map(show_sql_value).collect::<Vec<_>>().join(","))
                .collect();
            if sorted {
                rs.sort();
            }
            format!("rows{}:{}[{}]", if sorted { "!" } else { "" }, rows.num_columns(), rs.join(";"))
        }
        QueryResult::RowsAffected(n) => format!("count:{}", n),
        QueryResult::Ddl(_) => "ddl".into(),
    }
}

/// `sql <cfg>[;<cfg>]* | actions`: with several configurations the same actions run once per configuration; the
/// answers of the first one are printed, and the first answer on which another configuration differs is replaced by
/// `cfgdiff{<cfg>=><answer> || <cfg>=><answer>}`.  A configuration that answered `err:oom` is left out from there on.
pub fn run_line(line: &str) -> String {
    let head = line.split(" | ").next().unwrap();
    let cfgs: Vec<&str> = head.split_whitespace().nth(1).unwrap_or("").split(';').collect();
    if cfgs.len() <= 1 {
        return run_with_cfg(line, cfgs.first().copied().unwrap_or(""));
    }
    let outs: Vec<Vec<String>> = cfgs.iter().map(|c| run_with_cfg(line, c).split(" | ").map(|s| s.to_string()).collect()).collect();
    let mut res = outs[0].clone();
    let mut alive: Vec<bool> = vec![true; cfgs.len()];
    for i in 0..res.len() {
        for j in 0..cfgs.len() {
            if !alive[j] { continue; }
            let seg = outs[j].get(i).cloned().unwrap_or_else(|| "missing".into());
            if seg == "err:oom" {
                // permitted only for a cache too small to hold one operation: these workloads touch fewer than a hundred
                // pages, so a cache configured with a thousand frames or more can never be that
                let frames: u64 = cfgs[j].split(',').find_map(|kv| kv.strip_prefix("cache=")).and_then(|v| v.parse().ok()).unwrap_or(0);
                if frames >= 1000 {
                    res[i] = format!("cfgdiff{{{}=>err:oom although the cache is configured with {} frames}}", cfgs[j], frames);
                    return res[..=i].join(" | ");
                }
                alive[j] = false;
                continue;
            }
        }
        if !alive[0] {
            // the first configuration ran out of cache: report the answers of the first one still alive
            if let Some(j) = (0..cfgs.len()).find(|&j| alive[j]) { res[i] = outs[j].get(i).cloned().unwrap_or_else(|| "missing".into()); }
        }
        let base = (0..cfgs.len()).find(|&j| alive[j]);
        if let Some(b) = base {
            for j in 0..cfgs.len() {
                if alive[j] && outs[j].get(i) != outs[b].get(i) {
                    res[i] = format!("cfgdiff{{{}=>{} || {}=>{}}}", cfgs[b], outs[b].get(i).cloned().unwrap_or_default(), cfgs[j], outs[j].get(i).cloned().unwrap_or_default());
                    return res[..=i].join(" | ");
                }
            }
        }
    }
    res.join(" | ")
}

fn run_with_cfg(line: &str, cfg_s: &str) -> String {
    let mut parts = line.split(" | ");
    let _head = parts.next().unwrap();
    let dir = crate::wal::scratch_dir("sql");
    let path = dir.join("db.axm");
    let mut db = Some(Database::create(&path, parse_cfg(cfg_s)).expect("create db"));
    let mut sessions: HashMap<String, Session> = HashMap::new();
    let mut out: Vec<String> = Vec::new();
    let verbose = std::env::var("AXV_VERBOSE").is_ok();
    for act in parts {
        let act = act.trim();
        let (op, rest) = act.split_once(' ').unwrap_or((act, ""));
        let res: String = match op {
            "X" | "X!" => match db.as_ref().unwrap().execute(rest) {
                Ok(r) => show_result(&r, op == "X!"),
                Err(e) => {
                    if verbose { eprintln!("ERR {}: {}", rest, e); }
                    classify_err(&e.to_string())
                }
            },
            "E" => match db.as_ref().unwrap().explain(rest) {
                Ok(p) => { if verbose { eprintln!("PLAN {}\n{}", rest, p); } format!("plan:{}", if p.contains("IndexScan") || p.contains("Index Scan") { "index" } else { "scan" }) },
                Err(e) => classify_err(&e.to_string()),
            },
            "B" => match db.as_ref().unwrap().session() {
                Ok(s) => {
                    sessions.insert(rest.to_string(), s);
                    "ok".into()
                }
                Err(e) => classify_err(&e.to_string()),
            },
            "Q" | "Q!" => {
                let (k, sql) = rest.split_once(' ').unwrap();
                match sessions.get_mut(k) {
                    Some(s) => match s.execute(sql) {
                        Ok(r) => show_result(&r, op == "Q!"),
                        Err(e) => {
                            if verbose { eprintln!("ERR {}: {}", sql, e); }
                            classify_err(&e.to_string())
                        }
                    },
                    None => "nosession".into(),
                }
            }
            "C" => match sessions.remove(rest) {
                Some(mut s) => match s.commit_transaction() {
                    Ok(()) => "ok".into(),
                    Err(e) => classify_err(&e.to_string()),
                },
                None => "nosession".into(),
            },
            "R" => match sessions.remove(rest) {
                Some(mut s) => match s.abort_transaction() {
                    Ok(()) => "ok".into(),
                    Err(e) => classify_err(&e.to_string()),
                },
                None => "nosession".into(),
            },
            "D" => {
                sessions.remove(rest);
                "ok".into()
            }
            "T" => {
                let stmts: Vec<&str> = rest.split(" ;; ").collect();
                match db.as_ref().unwrap().execute_batch(&stmts) {
                    Ok(rs) => format!("batch[{}]", rs.iter().map(|r| show_result(r, true)).collect::<Vec<_>>().join("/")),
                    Err(e) => {
                        if verbose { eprintln!("ERR batch: {}", e); }
                        classify_err(&e.to_string())
                    }
                }
            }
            "V" => match db.as_ref().unwrap().vacuum() {
                Ok(_) => "ok".into(),
                Err(e) => classify_err(&e.to_string()),
            },
            "M" => {
                // M <n> <sql>: the statement n times in autocommit; "ok" when every run succeeded
                let (n, sql) = rest.split_once(' ').unwrap();
                let n: usize = n.parse().unwrap();
                let mut res = String::from("ok");
                for _ in 0..n {
                    if let Err(e) = db.as_ref().unwrap().execute(sql) {
                        if verbose { eprintln!("ERR {}: {}", sql, e); }
                        res = classify_err(&e.to_string());
                        break;
                    }
                }
                res
            }
            "S" => match std::fs::metadata(&path) {
                Ok(m) => format!("size:{}", m.len()),
                Err(_) => "err:other".into(),
            },
            "F" => match db.as_ref().unwrap().flush() {
                Ok(()) => "ok".into(),
                Err(e) => classify_err(&e.to_string()),
            },
            "A" => match db.as_ref().unwrap().analyze(1.0, 10000) {
                Ok(()) => "ok".into(),
                Err(e) => classify_err(&e.to_string()),
            },
            "O" | "K" => {
                sessions.clear();
                let old = db.take().unwrap();
                if op == "K" {
                    std::mem::forget(old); // process death: no flush, no drop
                } else {
                    drop(old);
                }
                match Database::open(&path, parse_cfg(rest)) {
                    Ok(d) => {
                        db = Some(d);
                        "ok".into()
                    }
                    Err(e) => {
                        if verbose { eprintln!("ERR open: {}", e); }
                        out.push("openerr".into());
                        break;
                    }
                }
            }
            x => panic!("bad sql action {x}"),
        };
        out.push(res);
    }
    sessions.clear();
    drop(db);
    let _ = std::fs::remove_dir_all(&dir);
    out.join(" | ")
}
