pub fn unhex(s: &str) -> Vec<u8> {
    if s == "-" {
        return Vec::new();
    }
    let b = s.as_bytes();
    assert!(b.len() % 2 == 0, "odd hex");
    (0..b.len() / 2)
        .map(|i| u8::from_str_radix(std::str::from_utf8(&b[2 * i..2 * i + 2]).unwrap(), 16).unwrap())
        .collect()
}

pub fn hex(b: &[u8]) -> String {
    if b.is_empty() {
        return "-".into();
    }
    let mut s = String::with_capacity(b.len() * 2);
    for x in b {
        s.push_str(&format!("{:02x}", x));
    }
    s
}

pub fn hexstr(s: &str) -> String {
    hex(s.as_bytes())
}

pub fn string_of_hex(s: &str) -> String {
    String::from_utf8(unhex(s)).expect("case strings are valid UTF-8")
}
