//! Mode `crash`: run a history with the I/O tap on, then rebuild the on-disk image at crash points (prefixes of the
//! sequence of file mutations the engine issued), reopen each image and report what it contains.
//!
//! case:  crash <cfg> <tables> <points> <nested> | <action> | ...
//!   tables: comma separated names that are dumped after every reopen
//!   points: `all` | `s<stride>:<offset>` (every stride-th event) | `b<r>` (within r events of an action boundary,
//!           plus every 7th) | explicit `k,k,...`
//!   nested: `0` | `n<stride>` crash points inside the recovery that follows (every stride-th of its own events)
//! actions as in mode `sql` (X X! B Q Q! C R D T V F M).
//!
//! output: <answer of each action joined by " | "> || <crash records joined by " ; ">
//!   crash record: k1-k2@j@f@w@<dump>@<flags>  (records joined by " ;; ")   for the crash points k1..k2 (events applied), j = actions completed,
//!   f = 1 when action j+1 was in progress, w = 1 when the data file holds page writes newer than the last completed
//!   checkpoint, dump = `name=<rows!..|absent|err:..>` joined by `,` or `openerr:<class>`,
//!   flags: `ok` or a `+`-joined list of  probe(<what>)  reopen(<what>)  nested%<j2>(<what>)  nestedw%<j2>(<what>, inside such a window)
use crate::sql::{classify_err, parse_cfg, show_result};
use axmosdb::tcp::session::Session;
use axmosdb::verif::iotap::{self, Event, Kind};
use axmosdb::{DBConfig, Database};
use std::collections::{BTreeMap, HashMap};
use std::panic::{catch_unwind, AssertUnwindSafe};
use std::path::{Path, PathBuf};

type Image = BTreeMap<String, Vec<u8>>;

fn fname(p: &Path) -> String {
    p.file_name().unwrap().to_string_lossy().to_string()
}

fn apply(img: &mut Image, e: &Event) {
    let f = img.entry(fname(&e.path)).or_default();
    match &e.kind {
        Kind::Write(off, bytes) => {
            let end = *off as usize + bytes.len();
            if f.len() < end {
                f.resize(end, 0);
            }
            f[*off as usize..end].copy_from_slice(bytes);
        }
        Kind::SetLen(n) => f.resize(*n as usize, 0),
        Kind::Sync => {}
    }
}

/// true when the data file holds page writes that are newer than the last completed checkpoint (the last
/// truncation of the log): the engine has no page LSNs, so such an image is outside what its recovery can handle.
fn in_window(events: &[Event]) -> bool {
    let mut dbw = 0usize;
    for e in events {
        let is_log = fname(&e.path).ends_with(".log");
        match &e.kind {
            Kind::Write(..) if !is_log => dbw += 1,
            Kind::SetLen(_) if is_log => dbw = 0,
            _ => {}
        }
    }
    dbw > 0
}

/// kinds and transaction ids of the records the engine's own reader finds in the image's log
fn log_shape(img_dir: &Path) -> String {
    let lp = img_dir.join("axmos.log");
    if !lp.exists() {
        return "nolog".into();
    }
    let copy = img_dir.join("copy.log");
    std::fs::copy(&lp, &copy).unwrap();
    let out = match axmosdb::verif::wal::Log::open(&copy) {
        Ok(mut l) => {
            let recs = l.read_all(4).unwrap_or_default();
            let s = recs
                .iter()
                .map(|r| format!("{}{}", match r.kind { 0 => "B", 1 => "C", 2 => "A", 3 => "E", _ => "O" }, r.tid))
                .collect::<Vec<_>>()
                .join(".");
            l.crash();
            s
        }
        Err(_) => "unreadable".into(),
    };
    let _ = std::fs::remove_file(&copy);
    out
}

fn materialise(img: &Image, dir: &Path) {
    let _ = std::fs::remove_dir_all(dir);
    std::fs::create_dir_all(dir).unwrap();
    for (name, bytes) in img {
        std::fs::write(dir.join(name), bytes).unwrap();
    }
}

fn open_db(path: &Path, cfg: DBConfig) -> Result<Database, String> {
    match catch_unwind(AssertUnwindSafe(|| Database::open(path, cfg))) {
        Ok(Ok(d)) => Ok(d),
        Ok(Err(e)) => {
            if std::env::var("AXV_VERBOSE").is_ok() {
                eprintln!("ERR open: {}", e);
            }
            Err(format!("openerr:{}", &classify_err(&e.to_string())[4..]))
        }
        Err(_) => Err("openerr:panic".into()),
    }
}

fn dump(db: &Database, tables: &[&str]) -> String {
    tables
        .iter()
        .map(|t| {
            let r = catch_unwind(AssertUnwindSafe(|| db.execute(&format!("SELECT * FROM {}", t))));
            let s = match r {
                Ok(Ok(r)) => show_result(&r, true),
                Ok(Err(e)) => {
                    let c = classify_err(&e.to_string());
                    if c == "err:bind" { "absent".into() } else { c }
                }
                Err(_) => "err:panic".into(),
            };
            format!("{}={}", t, s)
        })
        .collect::<Vec<_>>()
        .join(",")
}

/// The database is usable: a new table can be created, written, read and dropped again.
fn probe(db: &Database) -> Option<String> {
    let steps: [(&str, &str); 4] = [
        ("CREATE TABLE zz_probe (a INT, b TEXT)", "ddl"),
        ("INSERT INTO zz_probe VALUES (1, 'x'), (2, 'y')", "count:2"),
        ("SELECT a FROM zz_probe ORDER BY a", "rows:1[1;2]"),
        ("DROP TABLE zz_probe", "ddl"),
    ];
    for (sql, want) in steps {
        let got = match catch_unwind(AssertUnwindSafe(|| db.execute(sql))) {
            Ok(Ok(r)) => show_result(&r, false),
            Ok(Err(e)) => {
                if std::env::var("AXV_VERBOSE").is_ok() { eprintln!("ERR probe {}: {}", sql, e); }
                classify_err(&e.to_string())
            }
            Err(_) => "err:panic".into(),
        };
        if got != want {
            return Some(format!("{}=>{}", sql.split_whitespace().next().unwrap(), got));
        }
    }
    None
}

fn points_of(spec: &str, base: usize, n: usize, bounds: &[(usize, usize)]) -> Vec<usize> {
    let mut v: Vec<usize> = if spec == "all" {
        (base..=n).collect()
    } else if let Some(r) = spec.strip_prefix('s') {
        let (stride, off) = r.split_once(':').unwrap_or((r, "0"));
        let (stride, off): (usize, usize) = (stride.parse().unwrap(), off.parse().unwrap());
        (base..=n).filter(|k| (k + off) % stride == 0).collect()
    } else if let Some(r) = spec.strip_prefix('b') {
        let r: usize = r.parse().unwrap();
        (base..=n)
            .filter(|&k| k % 7 == 0 || bounds.iter().any(|&(b, a)| k + r >= b && k <= b + r || k + r >= a && k <= a + r))
            .collect()
    } else {
        spec.split(',').map(|x| x.parse().unwrap()).filter(|k| *k >= base && *k <= n).collect()
    };
    if !v.contains(&n) {
        v.push(n);
    }
    v
}

pub fn run_line(line: &str) -> String {
    let mut parts = line.split(" | ");
    let head: Vec<&str> = parts.next().unwrap().split_whitespace().collect();
    let cfg_s = head.get(1).copied().unwrap_or("");
    let tables: Vec<&str> = head.get(2).copied().unwrap_or("").split(',').filter(|s| !s.is_empty()).collect();
    let points_s = head.get(3).copied().unwrap_or("all");
    let nested_s = head.get(4).copied().unwrap_or("0");
    // optional: P<hex of "table=INSERT ...;;table=INSERT ...">: one insert of a fresh row per table, run after every
    // reopen; it must report one row and the table must have one row more afterwards
    let post: Vec<(String, String)> = head
        .get(5)
        .and_then(|t| t.strip_prefix('P'))
        .map(|h| {
            crate::util::string_of_hex(h)
                .split(";;")
                .filter_map(|x| x.split_once('=').map(|(a, b)| (a.to_string(), b.to_string())))
                .collect()
        })
        .unwrap_or_default();
    let verbose = std::env::var("AXV_VERBOSE").is_ok();
    // optional 7th token `L`: every crash record also carries the records of the log found in the image
    // (`B<tid>` `C` `A` `E`, `O` for any data or catalog operation), joined by `.`, before a `#`
    let with_log = head.get(6).copied() == Some("L");
    // Images in which the data file is ahead of the last completed checkpoint (the recorded finding) are not opened -
    // torn pages can trip the engine's unsafe-precondition checks and abort the process - unless the case asks for it
    // with an 8th token `W` (the finding's witness does).
    let open_windows = head.get(7).copied() == Some("W") || head.get(6).copied() == Some("W") || head.get(5).copied() == Some("W");

    let dir = crate::wal::scratch_dir("crash");
    let live = dir.join("live");
    std::fs::create_dir_all(&live).unwrap();
    let path = live.join("db.axm");

    iotap::start();
    let db = Database::create(&path, parse_cfg(cfg_s)).expect("create db");
    let base = iotap::len();
    let mut sessions: HashMap<String, Session> = HashMap::new();
    let mut answers: Vec<String> = Vec::new();
    let mut bounds: Vec<(usize, usize)> = Vec::new();
    for act in parts {
        let act = act.trim();
        let (op, rest) = act.split_once(' ').unwrap_or((act, ""));
        let before = iotap::len();
        let res: String = match op {
            "X" | "X!" => match db.execute(rest) {
                Ok(r) => show_result(&r, op == "X!"),
                Err(e) => {
                    if verbose { eprintln!("ERR {}: {}", rest, e); }
                    classify_err(&e.to_string())
                }
            },
            "B" => match db.session() {
                Ok(s) => { sessions.insert(rest.to_string(), s); "ok".into() }
                Err(e) => classify_err(&e.to_string()),
            },
            "Q" | "Q!" => {
                let (k, sql) = rest.split_once(' ').unwrap();
                match sessions.get_mut(k) {
                    Some(s) => match s.execute(sql) {
                        Ok(r) => show_result(&r, op == "Q!"),
                        Err(e) => {
                            if verbose { eprintln!("ERR {}: {}", sql, e); }
                            classify_err(&e.to_string())
                        }
                    },
                    None => "nosession".into(),
                }
            }
            "C" => match sessions.remove(rest) {
                Some(mut s) => match s.commit_transaction() {
                    Ok(()) => "ok".into(),
                    Err(e) => classify_err(&e.to_string()),
                },
                None => "nosession".into(),
            },
            "R" => match sessions.remove(rest) {
                Some(mut s) => match s.abort_transaction() {
                    Ok(()) => "ok".into(),
                    Err(e) => classify_err(&e.to_string()),
                },
                None => "nosession".into(),
            },
            "D" => { sessions.remove(rest); "ok".into() }
            "T" => {
                let stmts: Vec<&str> = rest.split(" ;; ").collect();
                match db.execute_batch(&stmts) {
                    Ok(rs) => format!("batch[{}]", rs.iter().map(|r| show_result(r, true)).collect::<Vec<_>>().join("/")),
                    Err(e) => classify_err(&e.to_string()),
                }
            }
            "V" => match db.vacuum() { Ok(_) => "ok".into(), Err(e) => classify_err(&e.to_string()) },
            "F" => match db.flush() { Ok(()) => "ok".into(), Err(e) => classify_err(&e.to_string()) },
            "M" => {
                let (n, sql) = rest.split_once(' ').unwrap();
                let n: usize = n.parse().unwrap();
                let mut res = String::from("ok");
                for _ in 0..n {
                    if let Err(e) = db.execute(sql) { res = classify_err(&e.to_string()); break; }
                }
                res
            }
            x => panic!("bad crash action {x}"),
        };
        bounds.push((before, iotap::len()));
        answers.push(res);
    }
    let events = iotap::stop();
    sessions.clear();
    drop(db);

    let n = events.len();
    if verbose {
        for (i, e) in events.iter().enumerate() {
            let act = bounds.iter().position(|&(b, a)| b <= i && i < a);
            eprintln!("event {} (action {:?}): {}:{}", i, act, fname(&e.path), match &e.kind { Kind::Write(o, b) => format!("w{}+{}", o, b.len()), Kind::SetLen(n) => format!("len{}", n), Kind::Sync => "sync".into() });
        }
    }
    let points = points_of(points_s, base, n, &bounds);
    let nested: usize = nested_s.strip_prefix('n').map(|s| s.parse().unwrap()).unwrap_or(0);
    let reopen_cfg = parse_cfg(cfg_s);
    let img_dir = dir.join("img");
    let img2_dir = dir.join("img2");
    let mut img: Image = Image::new();
    let mut applied = 0usize;
    let mut recs: Vec<(usize, usize, String)> = Vec::new(); // (k1, k2, body)
    for &k in &points {
        while applied < k {
            apply(&mut img, &events[applied]);
            applied += 1;
        }
        let j = bounds.iter().filter(|&&(_, a)| a <= k).count();
        let f = bounds.get(j).map(|&(b, a)| b < k && k < a).unwrap_or(false);
        let w = in_window(&events[base..k]);
        if w && !open_windows {
            let body = format!("{}@{}@1@skipped@ok", j, if f { 1 } else { 0 });
            match recs.last_mut() {
                Some((_, k2, b)) if *b == body => *k2 = k,
                _ => recs.push((k, k, body)),
            }
            continue;
        }
        materialise(&img, &img_dir);
        let ipath: PathBuf = img_dir.join("db.axm");
        if verbose {
            let lp = img_dir.join("axmos.log");
            if lp.exists() {
                let copy = img_dir.join("copy.log");
                std::fs::copy(&lp, &copy).unwrap();
                match axmosdb::verif::wal::Log::open(&copy) {
                    Ok(mut l) => {
                        let recs = l.read_all(4).unwrap_or_default();
                        eprintln!("k={} log: {}", k, recs.iter().map(|r| format!("{}:{}t{}{}", r.lsn, ["B","C","A","E","?","?","U","D","I","Cr","Dr","Al"].get(r.kind as usize).unwrap_or(&"?"), r.tid, r.oid.map(|o| format!("o{}", o)).unwrap_or_default())).collect::<Vec<_>>().join(" "));
                        l.crash();
                    }
                    Err(e) => eprintln!("k={} log unreadable: {}", k, e),
                }
                let _ = std::fs::remove_file(&copy);
            }
        }
        let shape = if with_log { log_shape(&img_dir) } else { String::new() };
        if nested > 0 { iotap::start(); }
        let opened = open_db(&ipath, reopen_cfg);
        let ev2 = if nested > 0 { iotap::stop() } else { Vec::new() };
        let (d, flags) = match opened {
            Err(e) => (e, "ok".to_string()),
            Ok(db1) => {
                let d = dump(&db1, &tables);
                let mut flags: Vec<String> = Vec::new();
                if let Some(w) = probe(&db1) { flags.push(format!("probe({})", w)); }
                let mut d_expect = d.clone();
                for (t, sql) in &post {
                    let before = catch_unwind(AssertUnwindSafe(|| db1.execute(&format!("SELECT * FROM {}", t))));
                    let n0 = match before { Ok(Ok(axmosdb::runtime::QueryResult::Rows(r))) => r.iterrows().count(), _ => continue };
                    let got = match catch_unwind(AssertUnwindSafe(|| db1.execute(sql))) {
                        Ok(Ok(r)) => show_result(&r, false),
                        Ok(Err(e)) => { if verbose { eprintln!("ERR post {}: {}", sql, e); } classify_err(&e.to_string()) }
                        Err(_) => "err:panic".into(),
                    };
                    let after = catch_unwind(AssertUnwindSafe(|| db1.execute(&format!("SELECT * FROM {}", t))));
                    let n1 = match after { Ok(Ok(axmosdb::runtime::QueryResult::Rows(r))) => r.iterrows().count() as i64, _ => -1 };
                    if got != "count:1" || n1 != n0 as i64 + 1 {
                        flags.push(format!("insert({}=>{},{}->{})", t, got, n0, n1));
                    }
                }
                if !post.is_empty() { d_expect = dump(&db1, &tables); }
                let d = d.clone();
                drop(db1); // clean close
                match open_db(&ipath, reopen_cfg) {
                    Err(e) => flags.push(format!("reopen({})", e)),
                    Ok(db2) => {
                        let d2 = dump(&db2, &tables);
                        if d2 != d_expect { flags.push(format!("reopen({})", d2)); }
                    }
                }
                // crash points inside the recovery that just ran
                if nested > 0 && !ev2.is_empty() {
                    if verbose {
                        eprintln!("k={} recovery events: {}", k, ev2.iter().map(|e| format!("{}:{}", fname(&e.path), match &e.kind { Kind::Write(o, b) => format!("w{}+{}", o, b.len()), Kind::SetLen(n) => format!("len{}", n), Kind::Sync => "sync".into() })).collect::<Vec<_>>().join(" "));
                    }
                    let mut j2 = 1;
                    let (mut seen_strict, mut seen_window) = (false, false);
                    while j2 <= ev2.len() && !seen_strict {
                        let mut img2 = img.clone();
                        for e in &ev2[..j2] { apply(&mut img2, e); }
                        materialise(&img2, &img2_dir);
                        let w2 = w || in_window(&ev2[..j2]);
                        if w2 && !open_windows { j2 += nested; continue; }
                        let bad = match open_db(&img2_dir.join("db.axm"), reopen_cfg) {
                            Err(e) => Some(e),
                            Ok(db3) => {
                                let d3 = dump(&db3, &tables);
                                if d3 != d { Some(d3) } else { None }
                            }
                        };
                        if let Some(what) = bad {
                            if w2 && !seen_window { flags.push(format!("nestedw%{}({})", j2, what)); seen_window = true; }
                            if !w2 { flags.push(format!("nested%{}({})", j2, what)); seen_strict = true; }
                        }
                        j2 += nested;
                    }
                }
                (d, if flags.is_empty() { "ok".into() } else { flags.join("+") })
            }
        };
        let d = if with_log { format!("{}#{}", shape, d) } else { d };
        let body = format!("{}@{}@{}@{}@{}", j, if f { 1 } else { 0 }, if w { 1 } else { 0 }, d, flags);
        match recs.last_mut() {
            Some((_, k2, b)) if *b == body => *k2 = k,
            _ => recs.push((k, k, body)),
        }
    }
    let _ = std::fs::remove_dir_all(&dir);
    format!(
        "{} || {}",
        answers.join(" | "),
        recs.iter().map(|(a, b, s)| format!("{}-{}@{}", a, b, s)).collect::<Vec<_>>().join(" ;; ")
    )
}
