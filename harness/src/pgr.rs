//! Mode `pgr`: the pager with a small cache through the verif facade (C12).
//! case: pgr <page size>,<cache size> <op>*
//! ops: a (allocate -> a<id>)   w:<id>:<value>   r:<id> -> r=<value>   p:<id> (pin)   u:<id> (unpin)   F (flush)
//! an operation that fails answers <op>err:<class> (oom = the cache has no evictable frame)
use axmosdb::verif::pager::P;

fn class(e: &str) -> &'static str {
    if e.to_lowercase().contains("out of memory") { "oom" } else { "other" }
}

pub fn run(t: &[&str]) -> String {
    let cfg: Vec<usize> = t[1].split(',').map(|x| x.parse().unwrap()).collect();
    let dir = crate::wal::scratch_dir("pgr");
    let mut p = match P::create(&dir.join("p.db"), cfg[0], cfg[1]) {
        Ok(p) => p,
        Err(e) => return format!("createerr:{}", class(&e)),
    };
    let verbose = std::env::var("AXV_VERBOSE").is_ok();
    let mut out: Vec<String> = Vec::new();
    for op in &t[2..] {
        let f: Vec<&str> = op.split(':').collect();
        let r = match f[0] {
            "a" => p.alloc().map(|id| format!("a{}", id)).map_err(|e| ("a", e)),
            "w" => p.write(f[1].parse().unwrap(), f[2].parse().unwrap()).map(|_| "wok".to_string()).map_err(|e| ("w", e)),
            "r" => p.read(f[1].parse().unwrap()).map(|v| format!("r={}", v)).map_err(|e| ("r", e)),
            "p" => p.pin(f[1].parse().unwrap()).map(|_| "pok".to_string()).map_err(|e| ("p", e)),
            "u" => { p.unpin(f[1].parse().unwrap()); Ok("uok".to_string()) }
            "F" => p.flush().map(|_| "fok".to_string()).map_err(|e| ("F", e)),
            x => panic!("bad pgr op {x}"),
        };
        out.push(match r {
            Ok(s) => s,
            Err((o, e)) => { if verbose { eprintln!("ERR {}: {}", op, e); } format!("{}err:{}", o, class(&e)) }
        });
    }
    out.join(" ")
}
