//! Mode `coord`: TransactionCoordinator histories through the verif facade (C04).
//! case: coord <op>*     ops: b  c:<id>  a:<id>  w:<id>:<table>:<row>  V  (vacuum_transactions)
//!       Q:<k>:<n>  -> visibility row of the snapshot taken by the k-th begin for ids 0..n
//! output events: b<id>:<xmin>:<xmax|->   cok / cerr:conflict / cerr:other   aok / aerr   wok / werr
//!                vis:<bits>
use axmosdb::verif::coordinator::{snapshot_fields, Coord};
use axmosdb::verif::tuple::committed_before;

pub fn run(t: &[&str]) -> String {
    let dir = crate::wal::scratch_dir("coord");
    let c = Coord::create(&dir.join("c.db")).expect("create");
    let mut snaps = Vec::new();
    let mut out: Vec<String> = Vec::new();
    for op in &t[1..] {
        let f: Vec<&str> = op.split(':').collect();
        match f[0] {
            "b" => match c.begin() {
                Ok((id, s)) => {
                    let (xid, xmin, xmax) = snapshot_fields(&s);
                    assert_eq!(xid, id);
                    out.push(format!("b{}:{}:{}", id, xmin, xmax.map(|x| x.to_string()).unwrap_or("-".into())));
                    snaps.push(s);
                }
                Err(_) => out.push("berr".into()),
            },
            "c" => out.push(match c.commit(f[1].parse().unwrap()) {
                Ok(()) => "cok".into(),
                Err(e) if e.contains("conflict") => "cerr:conflict".into(),
                Err(_) => "cerr:other".into(),
            }),
            "a" => out.push(match c.abort(f[1].parse().unwrap()) {
                Ok(()) => "aok".into(),
                Err(_) => "aerr".into(),
            }),
            "w" => out.push(
                match c.record_write(f[1].parse().unwrap(), f[2].parse().unwrap(), f[3].parse().unwrap(), 0) {
                    Ok(()) => "wok".into(),
                    Err(_) => "werr".into(),
                },
            ),
            "V" => {
                c.vacuum_transactions();
            }
            "Q" => {
                let k: usize = f[1].parse().unwrap();
                let n: u64 = f[2].parse().unwrap();
                let bits: String = (0..n).map(|i| if committed_before(&snaps[k], i) { '1' } else { '0' }).collect();
                out.push(format!("vis:{}", bits));
            }
            x => panic!("bad coord op {x}"),
        }
    }
    drop(c);
    let _ = std::fs::remove_dir_all(&dir);
    if out.is_empty() { "-".into() } else { out.join(" ") }
}
