//! Mode `pexpr`: the expression parser on token strings (C05, C16).  case: pexpr <sql text...>
pub fn run_line(line: &str) -> String {
    let sql = line.strip_prefix("pexpr ").unwrap_or("");
    match axmosdb::verif::parser::parse_expr(sql) {
        Ok((tree, all)) => format!("{} {}", tree, if all { "end" } else { "more" }),
        Err(()) => "err".into(),
    }
}
