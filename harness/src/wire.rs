//! Mode `wire`: public codec API of axmosdb::tcp (C20).
use crate::util::*;
use axmosdb::tcp::{read_message, write_message, Request, Response, TcpError};
use std::io::Cursor;

fn show_err(e: &TcpError) -> String {
    match e {
        TcpError::VersionMismatch { .. } => "err:version",
        TcpError::UnknownCommand(_) => "err:unknowncmd",
        TcpError::UnknownStatus(_) => "err:unknownstatus",
        TcpError::InvalidMessage(_) => "err:invalid",
        TcpError::Io(_) => "err:io",
        TcpError::MessageTooLarge(_) => "err:toolarge",
        TcpError::ConnectionClosed => "err:closed",
    }
    .to_string()
}

fn show_request(r: &Request) -> String {
    match r {
        Request::Create(s) => format!("create:{}", hexstr(s)),
        Request::Open(s) => format!("open:{}", hexstr(s)),
        Request::Sql(s) => format!("sql:{}", hexstr(s)),
        Request::Begin => "begin".into(),
        Request::Rollback => "rollback".into(),
        Request::Commit => "commit".into(),
        Request::Explain(s) => format!("explain:{}", hexstr(s)),
        Request::Analyze { sample_rate, max_sample_rows } => {
            format!("analyze:{}:{}", sample_rate.to_bits(), *max_sample_rows as u64)
        }
        Request::Vacuum => "vacuum".into(),
        Request::Close => "close".into(),
        Request::Ping => "ping".into(),
        Request::Shutdown => "shutdown".into(),
    }
}

fn show_row(r: &[String]) -> String {
    r.iter().map(|s| hexstr(s)).collect::<Vec<_>>().join(",")
}

fn show_response(p: &Response) -> String {
    match p {
        Response::Ok(s) => format!("ok:{}", hexstr(s)),
        Response::Error(s) => format!("error:{}", hexstr(s)),
        Response::Rows { columns, data } => format!(
            "rows:{}:{}:{}:{}",
            columns.len(),
            data.len(),
            show_row(columns),
            data.iter().map(|r| show_row(r)).collect::<Vec<_>>().join(";")
        ),
        Response::SessionStarted => "sessionstarted".into(),
        Response::SessionEnd => "sessionend".into(),
        Response::RowsAffected(n) => format!("rowsaffected:{}", n),
        Response::Ddl(s) => format!("ddl:{}", hexstr(s)),
        Response::Explain(s) => format!("explainp:{}", hexstr(s)),
        Response::VacuumComplete { tables_vacuumed, bytes_freed, transactions_cleaned } => {
            format!("vacuum:{}:{}:{}", tables_vacuumed, bytes_freed, transactions_cleaned)
        }
        Response::Pong => "pong".into(),
        Response::Goodbye => "goodbye".into(),
        Response::ShuttingDown => "shuttingdown".into(),
    }
}

fn parse_request(t: &[&str]) -> Request {
    match t[0] {
        "create" => Request::Create(string_of_hex(t[1])),
        "open" => Request::Open(string_of_hex(t[1])),
        "sql" => Request::Sql(string_of_hex(t[1])),
        "explain" => Request::Explain(string_of_hex(t[1])),
        "analyze" => Request::Analyze {
            sample_rate: f64::from_bits(t[1].parse().unwrap()),
            max_sample_rows: t[2].parse::<u64>().unwrap() as usize,
        },
        "begin" => Request::Begin,
        "rollback" => Request::Rollback,
        "commit" => Request::Commit,
        "vacuum" => Request::Vacuum,
        "close" => Request::Close,
        "ping" => Request::Ping,
        "shutdown" => Request::Shutdown,
        x => panic!("bad request tag {x}"),
    }
}

fn parse_response(t: &[&str]) -> Response {
    match t[0] {
        "ok" => Response::Ok(string_of_hex(t[1])),
        "error" => Response::Error(string_of_hex(t[1])),
        "ddl" => Response::Ddl(string_of_hex(t[1])),
        "explainp" => Response::Explain(string_of_hex(t[1])),
        "rows" => {
            let nc: usize = t[1].parse().unwrap();
            let nr: usize = t[2].parse().unwrap();
            let columns = (0..nc).map(|i| string_of_hex(t[3 + i])).collect();
            let data = (0..nr)
                .map(|r| (0..nc).map(|c| string_of_hex(t[3 + nc + r * nc + c])).collect())
                .collect();
            Response::Rows { columns, data }
        }
        "rowsaffected" => Response::RowsAffected(t[1].parse().unwrap()),
        "vacuum" => Response::VacuumComplete {
            tables_vacuumed: t[1].parse::<u64>().unwrap() as usize,
            bytes_freed: t[2].parse::<u64>().unwrap() as usize,
            transactions_cleaned: t[3].parse::<u64>().unwrap() as usize,
        },
        "sessionstarted" => Response::SessionStarted,
        "sessionend" => Response::SessionEnd,
        "pong" => Response::Pong,
        "goodbye" => Response::Goodbye,
        "shuttingdown" => Response::ShuttingDown,
        x => panic!("bad response tag {x}"),
    }
}

pub fn run(t: &[&str]) -> String {
    match t[0] {
        "req" => {
            let r = parse_request(&t[1..]);
            let e = r.to_bytes();
            let d = match Request::from_bytes(&e) {
                Ok(r) => show_request(&r),
                Err(e) => show_err(&e),
            };
            format!("enc={} dec={}", hex(&e), d)
        }
        "resp" => {
            let p = parse_response(&t[1..]);
            let e = p.to_bytes();
            let d = match Response::from_bytes(&e) {
                Ok(r) => show_response(&r),
                Err(e) => show_err(&e),
            };
            format!("enc={} dec={}", hex(&e), d)
        }
        "breq" => match Request::from_bytes(&unhex(t[1])) {
            Ok(r) => show_request(&r),
            Err(e) => show_err(&e),
        },
        "bresp" => match Response::from_bytes(&unhex(t[1])) {
            Ok(r) => show_response(&r),
            Err(e) => show_err(&e),
        },
        "rframe" => {
            let bytes = unhex(t[1]);
            let total = bytes.len();
            let mut c = Cursor::new(bytes);
            match read_message(&mut c) {
                Ok(body) => format!("frame:{}:{}", hex(&body), total - c.position() as usize),
                Err(e) => show_err(&e),
            }
        }
        "wframe" => {
            let n: usize = t[1].parse().unwrap();
            let body = vec![0xABu8; n];
            let mut w: Vec<u8> = Vec::new();
            match write_message(&mut w, &body) {
                Ok(()) => {
                    assert!(w.len() == n + 4 && w[4..] == body[..], "frame body altered");
                    format!("hdr:{}", hex(&w[..4]))
                }
                Err(e) => show_err(&e),
            }
        }
        "rtframe" => {
            // a body of n bytes written by write_message and read back by read_message
            let n: usize = t[1].parse().unwrap();
            let body: Vec<u8> = (0..n).map(|i| (i * 31 + 7) as u8).collect();
            let mut w: Vec<u8> = Vec::new();
            match write_message(&mut w, &body) {
                Ok(()) => {
                    let mut c = Cursor::new(w);
                    match read_message(&mut c) {
                        Ok(b) => if b == body { "ok".into() } else { "differs".into() },
                        Err(e) => show_err(&e),
                    }
                }
                Err(e) => show_err(&e),
            }
        }
        x => panic!("bad wire case {x}"),
    }
}
