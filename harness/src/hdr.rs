//! Mode `hdr`: the aborted-transaction bitmap of the page-zero header through the verif facade (C09).
//! case: hdr <op>*   ops: m:<txid> (mark aborted)  c:<txid> (clear up to)  r (reload from the header bytes)
//!                        q:<txid> -> a0/a1      L -> list[<ids>]
use axmosdb::verif::header::Hdr;

pub fn run(t: &[&str]) -> String {
    let mut h = Hdr::new();
    let mut out: Vec<String> = Vec::new();
    for op in &t[1..] {
        let f: Vec<&str> = op.split(':').collect();
        match f[0] {
            "m" => h.mark_aborted(f[1].parse().unwrap()),
            "c" => h.clear_up_to(f[1].parse().unwrap()),
            "r" => h = h.reload(),
            "q" => out.push(format!("a{}", if h.is_aborted(f[1].parse().unwrap()) { 1 } else { 0 })),
            "L" => out.push(format!("list[{}]", h.aborted().iter().map(|x| x.to_string()).collect::<Vec<_>>().join(","))),
            x => panic!("bad hdr op {x}"),
        }
    }
    if out.is_empty() { "-".into() } else { out.join(" ") }
}
