//! Mode `tup`: row versions through the verif facade (C18).
//! case: tup <key kinds> <value kinds|-> <row values> <xmin> <op>*
//! ops:  u:<xid>:<idx>=<val>/...   d:<xid>   v:<oldest>   S:<xid>:<xmin>:<xmax|->:<a.b|->:<a.b|->   L   H
use crate::val::{parse_kind, parse_value, show_value};
use axmosdb::types::DataType;
use axmosdb::verif::tuple::{schema, snapshot, Tup};

fn ids(s: &str) -> Vec<u64> {
    if s == "-" {
        Vec::new()
    } else {
        s.split('.').map(|x| x.parse().unwrap()).collect()
    }
}

fn show_row(r: &[DataType]) -> String {
    r.iter().map(show_value).collect::<Vec<_>>().join(",")
}

pub fn run(t: &[&str]) -> String {
    let keys: Vec<_> = t[1].split(',').map(parse_kind).collect();
    let vals: Vec<_> = if t[2] == "-" { Vec::new() } else { t[2].split(',').map(parse_kind).collect() };
    let sch = schema(&keys, &vals);
    let row: Vec<DataType> = t[3].split(',').map(parse_value).collect();
    let xmin: u64 = t[4].parse().unwrap();
    let mut tup = match Tup::build(&sch, row, xmin) {
        Ok(t) => t,
        Err(_) => return "builderr".into(),
    };
    let mut out: Vec<String> = Vec::new();
    for op in &t[5..] {
        let f: Vec<&str> = op.split(':').collect();
        match f[0] {
            "u" => {
                let xid: u64 = f[1].parse().unwrap();
                // values may contain ':' (tagged syntax), so re-split the tail on '/'
                let tail = op.splitn(3, ':').nth(2).unwrap();
                let mods: Vec<(usize, DataType)> = if tail == "-" {
                    Vec::new()
                } else {
                    tail.split('/')
                        .map(|m| {
                            let (i, v) = m.split_once('=').unwrap();
                            (i.parse().unwrap(), parse_value(v))
                        })
                        .collect()
                };
                if tup.add_version(&sch, &mods, xid).is_err() {
                    out.push("uerr".into());
                }
            }
            "d" => {
                if tup.delete(f[1].parse().unwrap()).is_err() {
                    out.push("derr".into());
                }
            }
            "n" => {
                if tup.undelete().is_err() { out.push("nerr".into()); }
            }
            "v" => match tup.vacuum(&sch, f[1].parse().unwrap()) {
                Ok(_) => {}
                Err(_) => out.push("verr".into()),
            },
            "S" => {
                let xmax = if f[3] == "-" { None } else { Some(f[3].parse().unwrap()) };
                let s = snapshot(f[1].parse().unwrap(), f[2].parse().unwrap(), xmax, &ids(f[4]), &ids(f[5]));
                out.push(match tup.decode_for(&sch, &s) {
                    Ok(Some(r)) => format!("vis[{}]", show_row(&r)),
                    Ok(None) => "none".into(),
                    Err(_) => "err".into(),
                });
            }
            "L" => out.push(match tup.decode_last(&sch) {
                Ok(r) => format!("last[{}]", show_row(&r)),
                Err(_) => "err".into(),
            }),
            "H" => {
                let (a, b, c) = tup.header();
                out.push(format!("hdr:{}:{}:{}", a, b.map(|x| x.to_string()).unwrap_or("-".into()), c));
            }
            x => panic!("bad tup op {x}"),
        }
    }
    if out.is_empty() { "-".into() } else { out.join(" ") }
}
