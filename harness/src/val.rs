//! Mode `val`: DataType comparison, hashing, casts, varint and value (de)serialisation (C19).
use crate::util::*;
use axmosdb::types::{Blob, DataType, DataTypeKind, Float32, Float64, Int32, Int64, UInt32, UInt64};
use axmosdb::verif::values;
use std::cmp::Ordering;
use std::collections::hash_map::DefaultHasher;
use std::hash::{Hash, Hasher};

pub fn parse_value(s: &str) -> DataType {
    if s == "n" {
        return DataType::Null;
    }
    let (tag, body) = s.split_once(':').unwrap_or((s, ""));
    match tag {
        "b" => DataType::Bool((body == "1").into()),
        "i" => DataType::Int(Int32(body.parse().unwrap())),
        "I" => DataType::BigInt(Int64(body.parse().unwrap())),
        "u" => DataType::UInt(UInt32(body.parse().unwrap())),
        "U" => DataType::BigUInt(UInt64(body.parse().unwrap())),
        "f" => DataType::Float(Float32(f32::from_bits(body.parse().unwrap()))),
        "d" => DataType::Double(Float64(f64::from_bits(body.parse().unwrap()))),
        "t" => DataType::Blob(Blob::from_unencoded_slice(&unhex(body))),
        x => panic!("bad value tag {x}"),
    }
}

pub fn show_value(v: &DataType) -> String {
    match v {
        DataType::Null => "n".into(),
        DataType::Bool(b) => format!("b:{}", if b.value() { 1 } else { 0 }),
        DataType::Int(x) => format!("i:{}", x.0),
        DataType::BigInt(x) => format!("I:{}", x.0),
        DataType::UInt(x) => format!("u:{}", x.0),
        DataType::BigUInt(x) => format!("U:{}", x.0),
        DataType::Float(x) => format!("f:{}", x.0.to_bits()),
        DataType::Double(x) => format!("d:{}", x.0.to_bits()),
        DataType::Blob(b) => match b.data() {
            Ok(d) => format!("t:{}", hex(d)),
            Err(_) => format!("t!:{}", hex(b.as_ref())),
        },
    }
}

pub fn parse_kind(s: &str) -> DataTypeKind {
    match s {
        "null" => DataTypeKind::Null,
        "bool" => DataTypeKind::Bool,
        "int" => DataTypeKind::Int,
        "bigint" => DataTypeKind::BigInt,
        "uint" => DataTypeKind::UInt,
        "biguint" => DataTypeKind::BigUInt,
        "float" => DataTypeKind::Float,
        "double" => DataTypeKind::Double,
        "blob" => DataTypeKind::Blob,
        x => panic!("bad kind {x}"),
    }
}

fn h(v: &DataType) -> u64 {
    let mut s = DefaultHasher::new();
    v.hash(&mut s);
    s.finish()
}

pub fn run(t: &[&str]) -> String {
    match t[0] {
        "pair" => {
            let (a, b) = (parse_value(t[1]), parse_value(t[2]));
            let cmp = match a.partial_cmp(&b) {
                Some(Ordering::Less) => "lt",
                Some(Ordering::Equal) => "eq",
                Some(Ordering::Greater) => "gt",
                None => "none",
            };
            format!("eq={} cmp={} heq={}", (a == b) as u8, cmp, (h(&a) == h(&b)) as u8)
        }
        "cast" => {
            let v = parse_value(t[1]);
            match v.try_cast(parse_kind(t[2])) {
                Ok(r) => show_value(&r),
                Err(_) => "err".into(),
            }
        }
        "varint" => {
            let z: i64 = t[1].parse().unwrap();
            let e = values::varint_encode(z);
            let d = match values::varint_decode(&e) {
                Ok((v, n)) => format!("{}:{}", v, n),
                Err(_) => "err".into(),
            };
            format!("enc={} size={} dec={}", hex(&e), values::varint_encoded_size(z), d)
        }
        "vdec" => match values::varint_decode(&unhex(t[1])) {
            Ok((v, n)) => format!("ok:{}:{}", v, n),
            Err(_) => "err".into(),
        },
        "ser" => {
            let v = parse_value(t[1]);
            match values::serialize(&v) {
                Ok(bytes) => {
                    let mut padded = bytes.clone();
                    padded.extend_from_slice(&[0xEE; 3]);
                    let d = match values::deserialize(v.kind(), &padded) {
                        Ok((r, n)) => format!("{}:{}", show_value(&r), n),
                        Err(_) => "err".into(),
                    };
                    format!("ser={} de={}", hex(&bytes), d)
                }
                Err(_) => "ser=err".into(),
            }
        }
        x => panic!("bad val case {x}"),
    }
}
