//! Mode `tree`: one B+tree through the verif facade (C10, C11).
//! case: tree <page>,<cache>,<minkeys>,<siblings> <key kinds> <op>*      (one blob value column)
//! ops:  i:<key>:<len>:<seed>  insert      u:..  upsert      p:..  update      r:<key>  remove
//!       g:<key>  -> g=<len>.<sum> | g=none      S -> scan[<key>=<len>.<sum>;...]      D -> dump + free list + overflow chains
//!       X -> dealloc the whole tree (then D shows what is left)
//! <key> is one value token per key column joined by '+' (tokens of mode `val`).
//! The stored value is <len> bytes: byte j = (seed + 7*j) mod 256; it is reported as <len>.<sum of bytes mod 65536>.
use crate::val::{parse_kind, parse_value, show_value};
use axmosdb::types::{Blob, DataType, DataTypeKind};
use axmosdb::verif::tree::Tree;
use axmosdb::verif::tuple::schema;

fn payload(len: usize, seed: usize) -> Vec<u8> {
    (0..len).map(|j| ((seed + 7 * j) % 256) as u8).collect()
}

fn key_of(tok: &str) -> Vec<DataType> {
    tok.split('+').map(parse_value).collect()
}

fn show_key(row: &[DataType], nk: usize) -> String {
    row[..nk].iter().map(show_value).collect::<Vec<_>>().join("+")
}

fn show_val(row: &[DataType], nk: usize) -> String {
    match row.get(nk) {
        Some(DataType::Blob(b)) => match b.data() {
            Ok(d) => format!("{}.{}", d.len(), d.iter().map(|x| *x as usize).sum::<usize>() % 65536),
            Err(_) => "badblob".into(),
        },
        Some(other) => format!("?{}", show_value(other)),
        None => "novalue".into(),
    }
}

fn opt(x: Option<u64>) -> String {
    x.map(|v| v.to_string()).unwrap_or("-".into())
}

fn err_class(e: &str) -> &'static str {
    let m = e.to_lowercase();
    if m.contains("already exists") { "exists" } else if m.contains("does not exist") || m.contains("nonexistent") || m.contains("not found") { "missing" }
    else if m.contains("out of memory") { "oom" } else { "other" }
}

pub fn run(t: &[&str]) -> String {
    let cfg: Vec<usize> = t[1].split(',').map(|x| x.parse().unwrap()).collect();
    let kinds: Vec<DataTypeKind> = t[2].split(',').map(parse_kind).collect();
    let nk = kinds.len();
    let sch = schema(&kinds, &[DataTypeKind::Blob]);
    let dir = crate::wal::scratch_dir("tree");
    let mut tree = match Tree::create(&dir.join("t.db"), cfg[0], cfg[1], cfg[2], cfg[3], sch) {
        Ok(t) => t,
        Err(e) => return format!("createerr:{}", err_class(&e)),
    };
    let verbose = std::env::var("AXV_VERBOSE").is_ok();
    let mut out: Vec<String> = Vec::new();
    for op in &t[3..] {
        let f: Vec<&str> = op.splitn(2, ':').collect();
        match f[0] {
            "i" | "u" | "p" => {
                // key tokens contain ':' themselves, so split from the right
                let mut parts: Vec<&str> = f[1].rsplitn(3, ':').collect();
                parts.reverse();
                let (key, len, seed) = (parts[0], parts[1].parse::<usize>().unwrap(), parts[2].parse::<usize>().unwrap());
                let mut row = key_of(key);
                row.push(DataType::Blob(Blob::from_unencoded_slice(&payload(len, seed))));
                let r = match f[0] { "i" => tree.insert(row), "u" => tree.upsert(row), _ => tree.update(row) };
                out.push(match r {
                    Ok(()) => format!("{}ok", f[0]),
                    Err(e) => { if verbose { eprintln!("ERR {}: {}", op, e); } format!("{}err:{}", f[0], err_class(&e)) }
                });
            }
            "r" => {
                let mut row = key_of(f[1]);
                row.push(DataType::Null);
                out.push(match tree.remove(row) {
                    Ok(()) => "rok".into(),
                    Err(e) => { if verbose { eprintln!("ERR {}: {}", op, e); } format!("rerr:{}", err_class(&e)) }
                });
            }
            "g" => {
                let mut row = key_of(f[1]);
                row.push(DataType::Null);
                out.push(match tree.get(row) {
                    Ok(Some(r)) => format!("g={}", show_val(&r, nk)),
                    Ok(None) => "g=none".into(),
                    Err(e) => { if verbose { eprintln!("ERR {}: {}", op, e); } format!("gerr:{}", err_class(&e)) }
                });
            }
            "S" => out.push(match tree.scan() {
                Ok(rows) => format!("scan[{}]", rows.iter().map(|r| format!("{}={}", show_key(r, nk), show_val(r, nk))).collect::<Vec<_>>().join(";")),
                Err(e) => { if verbose { eprintln!("ERR scan: {}", e); } format!("scanerr:{}", err_class(&e)) }
            }),
            "X" => out.push(match tree.dealloc() { Ok(()) => "xok".into(), Err(e) => format!("xerr:{}", err_class(&e)) }),
            "Z" => out.push(match tree.free_list() {
                Ok((total, head, tail, list)) => format!("free[{}:{}:{}:{}]", total, opt(head), opt(tail), list.iter().map(|x| x.to_string()).collect::<Vec<_>>().join(">")),
                Err(_) => "free[!]".into(),
            }),
            "D" => {
                let pages = match tree.dump() {
                    Ok(p) => p,
                    Err(e) => { if verbose { eprintln!("ERR dump: {}", e); } out.push(format!("dumperr:{}", err_class(&e))); continue; }
                };
                let mut chains: Vec<String> = Vec::new();
                let mut ps: Vec<String> = Vec::new();
                for p in &pages {
                    let cells: Vec<String> = p.cells.iter().map(|(row, lc, ov)| {
                        let k = match row { Ok(r) => show_key(r, nk), Err(_) => "?".into() };
                        let v = match row { Ok(r) => show_val(r, nk), Err(_) => "?".into() };
                        if let Some(first) = ov {
                            match tree.overflow_chain(*first) {
                                Ok(c) => chains.push(format!("{}@{}>{}", p.id, first, c.iter().map(|x| x.to_string()).collect::<Vec<_>>().join(">"))),
                                Err(_) => chains.push(format!("{}@{}>!", p.id, first)),
                            }
                        }
                        format!("{}/{}/{}/{}", k, v, opt(*lc), opt(*ov))
                    }).collect();
                    ps.push(format!("{}:{}:{}:{}:{}:{}:{}:{}:{}:{}", p.id, if p.leaf { "L" } else { "I" }, opt(p.prev), opt(p.next), opt(p.right_child),
                                    p.free_space, p.free_space_pointer, p.used_bytes, p.capacity, cells.join(";")));
                }
                let fl = match tree.free_list() {
                    Ok((total, head, tail, list)) => format!("free[{}:{}:{}:{}]", total, opt(head), opt(tail), list.iter().map(|x| x.to_string()).collect::<Vec<_>>().join(">")),
                    Err(_) => "free[!]".into(),
                };
                out.push(format!("dump[root={}|{}] {} ovf[{}]", tree.root(), ps.join("|"), fl, chains.join(",")));
            }
            x => panic!("bad tree op {x}"),
        }
    }
    if out.is_empty() { "-".into() } else { out.join(" ") }
}
