//! axv — runs case files against the real AxmosDB code and prints one canonical line per case.
//! usage: axv <mode> <cases> <out> [start_index]
//! Results are appended line by line (flushed) so that a process abort leaves a usable prefix.
use std::io::{BufRead, BufReader, Write};
use std::panic::{catch_unwind, AssertUnwindSafe};

mod coord;
mod tup;
mod util;
mod val;
mod wal;
mod wire;

fn main() {
    let args: Vec<String> = std::env::args().collect();
    if args.len() >= 2 && args[1] == "consts" {
        for (k, v) in axmosdb::verif::consts() {
            println!("{k} {v}");
        }
        return;
    }
    if args.len() < 4 {
        eprintln!("usage: axv <mode> <cases> <out> [start]");
        std::process::exit(2);
    }
    let mode = args[1].as_str();
    let start: usize = args.get(4).map(|s| s.parse().unwrap()).unwrap_or(0);
    let f = std::fs::File::open(&args[2]).expect("open cases");
    let mut out = std::fs::OpenOptions::new()
        .create(true)
        .append(true)
        .open(&args[3])
        .expect("open out");
    std::panic::set_hook(Box::new(|_| {}));
    for (i, line) in BufReader::new(f).lines().enumerate() {
        let line = line.unwrap();
        if i < start {
            continue;
        }
        let toks: Vec<&str> = line.split_whitespace().collect();
        let r = catch_unwind(AssertUnwindSafe(|| match mode {
            "wire" => wire::run(&toks),
            "val" => val::run(&toks),
            "wal" => wal::run(&toks),
            "tup" => tup::run(&toks),
            "coord" => coord::run(&toks),
            _ => panic!("unknown mode"),
        }));
        let s = match r {
            Ok(s) => s,
            Err(e) => {
                let msg = if let Some(s) = e.downcast_ref::<String>() {
                    s.clone()
                } else if let Some(s) = e.downcast_ref::<&str>() {
                    s.to_string()
                } else {
                    "?".into()
                };
                format!("panic {}", msg.replace('\n', " "))
            }
        };
        writeln!(out, "{}", s).unwrap();
        out.flush().unwrap();
    }
}
