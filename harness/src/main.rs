//! axv — runs case files against the real AxmosDB code and prints one canonical line per case.
//! usage: axv <mode> <cases> <out> [start_index]
//! Results are appended line by line (flushed) so that a process abort leaves a usable prefix.
use std::io::{BufRead, BufReader, Write};
use std::panic::{catch_unwind, AssertUnwindSafe};

mod coord;
mod crash;
mod hdr;
mod mt;
mod pexpr;
mod pgr;
mod slot;
mod fl;
mod sql;
mod tree;
mod tup;
mod util;
mod val;
mod wal;
mod wire;

fn main() {
    let args: Vec<String> = std::env::args().collect();
    if args.len() >= 2 && args[1] == "consts" {
        for (k, v) in axmosdb::verif::consts() {
            println!("{k} {v}");
        }
        return;
    }
    if args.len() < 4 {
        eprintln!("usage: axv <mode> <cases> <out> [start]");
        std::process::exit(2);
    }
    let mode = args[1].as_str();
    let start: usize = args.get(4).map(|s| s.parse().unwrap()).unwrap_or(0);
    let f = std::fs::File::open(&args[2]).expect("open cases");
    let mut out = std::fs::OpenOptions::new()
        .create(true)
        .append(true)
        .open(&args[3])
        .expect("open out");
    if std::env::var("AXV_VERBOSE").is_err() {
        std::panic::set_hook(Box::new(|_| {}));
    }
    for (i, line) in BufReader::new(f).lines().enumerate() {
        let line = line.unwrap();
        if i < start {
            continue;
        }
        // every case runs on its own thread under a watchdog: a case that does not return in time is
        // reported as "hang" and the process exits (the orchestrator restarts it at the next case)
        let mode_s = mode.to_string();
        let line_c = line.clone();
        let (tx, rx) = std::sync::mpsc::channel::<String>();
        std::thread::Builder::new()
            .stack_size(64 << 20)
            .spawn(move || {
                let toks: Vec<&str> = line_c.split_whitespace().collect();
                let r = catch_unwind(AssertUnwindSafe(|| match mode_s.as_str() {
                    "sql" => sql::run_line(&line_c),
                    "crash" => crash::run_line(&line_c),
                    "mt" => mt::run_line(&line_c),
                    "pexpr" => pexpr::run_line(&line_c),
                    "wire" => wire::run(&toks),
                    "val" => val::run(&toks),
                    "wal" => wal::run(&toks),
                    "tup" => tup::run(&toks),
                    "coord" => coord::run(&toks),
                    "hdr" => hdr::run(&toks),
                    "tree" => tree::run(&toks),
                    "pgr" => pgr::run(&toks),
                    "slot" => slot::run(&toks),
                    "fl" => fl::run(&toks),
                    _ => panic!("unknown mode"),
                }));
                let s = match r {
                    Ok(s) => s,
                    Err(e) => {
                        let msg = if let Some(s) = e.downcast_ref::<String>() {
                            s.clone()
                        } else if let Some(s) = e.downcast_ref::<&str>() {
                            s.to_string()
                        } else {
                            "?".into()
                        };
                        format!("panic {}", msg.replace('\n', " "))
                    }
                };
                let _ = tx.send(s);
            })
            .unwrap();
        let secs: u64 = std::env::var("AXV_CASE_TIMEOUT").ok().and_then(|v| v.parse().ok()).unwrap_or(30);
        let s = match rx.recv_timeout(std::time::Duration::from_secs(secs)) {
            Ok(s) => s,
            Err(_) => {
                writeln!(out, "hang").unwrap();
                out.flush().unwrap();
                std::process::exit(3);
            }
        };
        writeln!(out, "{}", s).unwrap();
        out.flush().unwrap();
    }
}
