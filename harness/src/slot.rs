//! Mode `slot`: one slotted B+tree page through the verif facade (C10/C11: storage/core/buffer.rs).
//! case: slot <page size> <op>*
//! ops: i:<index>:<id>:<len> (insert)  r:<index> (remove)  p:<index>:<id>:<len> (replace)  D (defragment)  A (drain ..)
//! answer per op: <result>[<free space pointer>,<free space>|<offset>.<id>.<padded len>,...]
use axmosdb::verif::page::Pg;
use std::panic::{catch_unwind, AssertUnwindSafe};

fn state(p: &Pg) -> String {
    let (slots, fsp, fs) = p.state();
    let cells = p.cells();
    let body: Vec<String> = slots.iter().zip(cells.iter()).map(|(o, (id, l))| {
        if *id == u64::MAX { format!("{}.corrupt", o) } else { format!("{}.{}.{}", o, id, l) }
    }).collect();
    format!("[{},{}|{}]", fsp, fs, body.join(","))
}

fn cellstr(c: (u64, usize)) -> String {
    if c.0 == u64::MAX { "corrupt".to_string() } else { format!("{}.{}", c.0, c.1) }
}

pub fn run(t: &[&str]) -> String {
    let mut p = Pg::new(t[1].parse().unwrap());
    let mut out: Vec<String> = vec![format!("cap{}", p.capacity())];
    for op in &t[2..] {
        let f: Vec<&str> = op.split(':').collect();
        let n = |k: usize| -> usize { f[k].parse().unwrap() };
        let r = catch_unwind(AssertUnwindSafe(|| match f[0] {
            "i" => match p.insert(n(1), n(2) as u64, n(3)) { Ok(i) => format!("ok{}", i), Err(e) => format!("err:{}", e) },
            "r" => match p.remove(n(1)) { Ok(c) => format!("c{}", cellstr(c)), Err(e) => format!("err:{}", e) },
            "p" => match p.replace(n(1), n(2) as u64, n(3)) { Ok(c) => format!("c{}", cellstr(c)), Err(e) => format!("err:{}", e) },
            "D" => { p.defragment(); "unit".to_string() }
            "A" => { let cs = p.drain_all(); format!("cs{}", cs.into_iter().map(cellstr).collect::<Vec<_>>().join("+")) }
            x => panic!("bad slot op {x}"),
        }));
        let r = r.unwrap_or_else(|_| "panic".to_string());
        let st = catch_unwind(AssertUnwindSafe(|| state(&p))).unwrap_or_else(|_| "[unreadable]".to_string());
        out.push(format!("{}{}", r, st));
    }
    out.join(" ")
}
